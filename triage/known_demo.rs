// Demonstrations of the KNOWN FINDINGS (defects recorded in known_findings.json, not repaired).
// Copied into a scratch copy as src/cpu/known_demo.rs; every test here FAILS on the current tree -
// that failure is the demonstration of the finding against the real code.
use crate::cpu::Cpu;
use crate::memory::MEMORY_START_ADDR;

const RAM: u32 = MEMORY_START_ADDR;

fn cpu_with(code: &[u8]) -> Cpu {
    let mut cpu = Cpu::new();
    cpu.pc = RAM;
    cpu.bus.memory[0..code.len()].copy_from_slice(code);
    cpu
}

fn step(cpu: &mut Cpu) -> anyhow::Result<u8> {
    let op = cpu.fetch();
    cpu.exec(op)
}

#[test]
fn c03_shal_v_is_sign_change() {
    // SHAL.B R0L with 0x40: sign bit changes 0 -> 1, V must be 1
    let mut cpu = cpu_with(&[0x10, 0x88]);
    cpu.er[0] = 0x40;
    step(&mut cpu).unwrap();
    assert_eq!(cpu.ccr & 0x02, 0x02, "SHAL: V must be set when the sign bit changes");
}

#[test]
fn c08_stc_w_predecrement() {
    // STC.W CCR,@-ER1 = 0140 6D90: ER1 -= 2, CCR stored at the new ER1
    let mut cpu = cpu_with(&[0x01, 0x40, 0x6d, 0x90]);
    cpu.er[1] = RAM + 0x42;
    cpu.ccr = 0x85;
    step(&mut cpu).unwrap();
    assert_eq!(cpu.er[1], RAM + 0x40, "pre-decrement must subtract 2");
}

#[test]
fn c16_dr_latch_survives_input_phase() {
    // port 1: all inputs, pins low; the CPU writes DR = 0xff, then switches the port to output
    let mut cpu = Cpu::new();
    cpu.bus.write(0xfee000, 0x00).unwrap();
    cpu.bus.write_port(1, 0x00);
    cpu.bus.write(0xffffd0, 0xff).unwrap();
    cpu.bus.write(0xfee000, 0xff).unwrap();
    assert_eq!(cpu.bus.read(0xffffd0).unwrap(), 0xff, "DR must return the value the CPU last wrote once the bits are outputs");
}
