// Triage demonstrations of the defects reported by the static checks (DESIGN.md section 5).
// NOT a registered check: copied into a scratch copy of the repository as src/cpu/verif_demo.rs
// (with `#[cfg(test)] mod verif_demo;` appended to src/cpu.rs) to show each finding against the
// real code; every test fails on the pinned tree and passes after the corresponding fix.
use crate::cpu::Cpu;
use crate::memory::MEMORY_START_ADDR;

const RAM: u32 = MEMORY_START_ADDR; // 0xffbf20

fn cpu_with(code: &[u8]) -> Cpu {
    let mut cpu = Cpu::new();
    cpu.pc = RAM;
    cpu.bus.memory[0..code.len()].copy_from_slice(code);
    cpu
}

fn step(cpu: &mut Cpu) -> anyhow::Result<u8> {
    let op = cpu.fetch();
    cpu.exec(op)
}

#[test]
fn c10_interrupt_masked_while_i_set() {
    let mut cpu = cpu_with(&[0x0c, 0x00]);
    cpu.er[7] = RAM + 0x100;
    cpu.ccr = 0x80;
    cpu.interrupt_controller.request_interrupt(36);
    cpu.try_interrupt().unwrap();
    assert_eq!(cpu.pc, RAM, "interrupt accepted although CCR.I is set");
    assert_eq!(cpu.er[7], RAM + 0x100);
    // stays pending and is delivered once I is cleared
    cpu.ccr = 0x00;
    cpu.bus.write(4 * 36 + 3, 0x42).unwrap();
    cpu.try_interrupt().unwrap();
    assert_eq!(cpu.pc, 0x42);
    assert_eq!(cpu.ccr & 0x80, 0x80);
}

#[test]
fn c08_post_increment_keeps_upper_byte() {
    // MOV.B @ER1+,R0L with ER1 = 0x01ffbf30
    let mut cpu = cpu_with(&[0x6c, 0x18]);
    cpu.er[1] = 0x0100_0000 | (RAM + 0x10);
    step(&mut cpu).unwrap();
    assert_eq!(cpu.er[1], 0x0100_0000 | (RAM + 0x11));
    // RTS with SP upper byte set
    let mut cpu = cpu_with(&[0x54, 0x70]);
    cpu.er[7] = 0x8000_0000 | (RAM + 0x100);
    step(&mut cpu).unwrap();
    assert_eq!(cpu.er[7], 0x8000_0000 | (RAM + 0x104));
}

#[test]
fn c08_disp16_wraps_modulo_2_24() {
    // MOV.B @(-0x100:16,ER1),R0L with ER1 = 0x80 -> EA = 0xffff80 (TCR0)
    let mut cpu = cpu_with(&[0x6e, 0x18, 0xff, 0x00]);
    cpu.er[1] = 0x80;
    cpu.bus.io_registrs2[0xffff80 - 0xffff20] = 0x5a;
    step(&mut cpu).expect("EA must wrap modulo 2^24, not fail");
    assert_eq!(cpu.er[0] & 0xff, 0x5a);
}

#[test]
fn c08_disp24_wraps_modulo_2_24() {
    // MOV.B @(0x7fff00:24,ER1),R0L with ER1 = 0xffd00100: the 32-bit sum overflows, EA = 0x500000 (DRAM)
    let mut cpu = cpu_with(&[0x78, 0x10, 0x6a, 0x28, 0x00, 0x7f, 0xff, 0x00]);
    cpu.er[1] = 0xffd0_0100;
    cpu.bus.dram[0x100000] = 0x77;
    let r = std::panic::catch_unwind(std::panic::AssertUnwindSafe(move || {
        let mut cpu = cpu;
        let r = step(&mut cpu);
        (r.is_ok(), cpu.er[0] & 0xff)
    }));
    let (ok, v) = r.expect("must not panic");
    assert!(ok, "EA must wrap modulo 2^24");
    assert_eq!(v, 0x77);
    // negative displacement below zero
    let mut cpu = cpu_with(&[0x78, 0x10, 0x6a, 0x28, 0x00, 0xff, 0xff, 0x00]);
    cpu.er[1] = 0x80; // 0x80 - 0x100 = 0xffff80
    cpu.bus.io_registrs2[0xffff80 - 0xffff20] = 0xa5;
    step(&mut cpu).expect("EA must wrap modulo 2^24, not fail");
    assert_eq!(cpu.er[0] & 0xff, 0xa5);
}

#[test]
fn c08_memory_indirect_reads_vector_area() {
    // JMP @@0x40 : target taken from address 0x000040
    let mut cpu = cpu_with(&[0x5b, 0x40]);
    cpu.bus.write(0x40, 0x00).unwrap();
    cpu.bus.write(0x41, 0xff).unwrap();
    cpu.bus.write(0x42, 0xc0).unwrap();
    cpu.bus.write(0x43, 0x00).unwrap();
    step(&mut cpu).unwrap();
    assert_eq!(cpu.pc, 0xffc000);
    // JSR @@0x40
    let mut cpu = cpu_with(&[0x5f, 0x40]);
    cpu.er[7] = RAM + 0x100;
    cpu.bus.write(0x41, 0xff).unwrap();
    cpu.bus.write(0x42, 0xc0).unwrap();
    step(&mut cpu).unwrap();
    assert_eq!(cpu.pc, 0xffc000);
}

#[test]
fn c05_pc_is_24_bit() {
    // JMP @ER1 with upper byte set
    let mut cpu = cpu_with(&[0x59, 0x10]);
    cpu.er[1] = 0x5a00_0000 | 0xffc000;
    step(&mut cpu).unwrap();
    assert_eq!(cpu.pc, 0xffc000);
    // JSR @ER1
    let mut cpu = cpu_with(&[0x5d, 0x10]);
    cpu.er[7] = RAM + 0x100;
    cpu.er[1] = 0x5a00_0000 | 0xffc000;
    step(&mut cpu).unwrap();
    assert_eq!(cpu.pc, 0xffc000);
    // RTS with a frame whose top byte is non-zero
    let mut cpu = cpu_with(&[0x54, 0x70]);
    cpu.er[7] = RAM + 0x100;
    cpu.bus.memory[0x100..0x104].copy_from_slice(&[0x5a, 0xff, 0xc0, 0x00]);
    step(&mut cpu).unwrap();
    assert_eq!(cpu.pc, 0xffc000);
}

#[test]
fn c04_bst_bist_clear_the_bit() {
    // BST #0,R0L with C = 0 must clear bit 0
    let mut cpu = cpu_with(&[0x67, 0x08]);
    cpu.er[0] = 0xff;
    cpu.ccr = 0;
    step(&mut cpu).unwrap();
    assert_eq!(cpu.er[0] & 0xff, 0xfe);
    // BIST #0,R0L with C = 1 must clear bit 0
    let mut cpu = cpu_with(&[0x67, 0x88]);
    cpu.er[0] = 0xff;
    cpu.ccr = 1;
    step(&mut cpu).unwrap();
    assert_eq!(cpu.er[0] & 0xff, 0xfe);
    // BST #3,@ER1
    let mut cpu = cpu_with(&[0x7d, 0x10, 0x67, 0x30]);
    cpu.er[1] = RAM + 0x40;
    cpu.bus.memory[0x40] = 0xff;
    cpu.ccr = 0;
    step(&mut cpu).unwrap();
    assert_eq!(cpu.bus.memory[0x40], 0xf7);
    // BIST #3,@0xffff10 (on-chip RAM via @aa:8)
    let mut cpu = cpu_with(&[0x7f, 0x10, 0x67, 0xb0]);
    cpu.bus.write(0xffff10, 0xff).unwrap();
    cpu.ccr = 1;
    step(&mut cpu).unwrap();
    assert_eq!(cpu.bus.read(0xffff10).unwrap(), 0xf7);
}

#[test]
fn c02_add_reads_full_source_field() {
    // ADD.B R1L,R0L  (08 9 8)
    let mut cpu = cpu_with(&[0x08, 0x98]);
    cpu.er[1] = 0x1102; // R1H = 0x11, R1L = 0x02
    cpu.er[0] = 0x01;
    step(&mut cpu).unwrap();
    assert_eq!(cpu.er[0] & 0xff, 0x03);
    // ADD.W E1,R0 (09 9 0)
    let mut cpu = cpu_with(&[0x09, 0x90]);
    cpu.er[1] = 0x0002_1111;
    cpu.er[0] = 0x01;
    step(&mut cpu).unwrap();
    assert_eq!(cpu.er[0] & 0xffff, 0x03);
}

#[test]
fn c02_dec_b_uses_the_byte_register() {
    // DEC.B R0H
    let mut cpu = cpu_with(&[0x1a, 0x00]);
    cpu.er[0] = 0x0000_1077;
    step(&mut cpu).unwrap();
    assert_eq!(cpu.er[0], 0x0000_0f77);
    // DEC.B R0L
    let mut cpu = cpu_with(&[0x1a, 0x08]);
    cpu.er[0] = 0x1234_1077;
    step(&mut cpu).unwrap();
    assert_eq!(cpu.er[0], 0x1234_1076);
}

#[test]
fn c02_inc_2_adds_two() {
    let mut cpu = cpu_with(&[0x0b, 0xd0]); // INC.W #2,R0
    cpu.er[0] = 5;
    step(&mut cpu).unwrap();
    assert_eq!(cpu.er[0], 7);
    let mut cpu = cpu_with(&[0x0b, 0xf0]); // INC.L #2,ER0
    cpu.er[0] = 0x10005;
    step(&mut cpu).unwrap();
    assert_eq!(cpu.er[0], 0x10007);
}

#[test]
fn c02_addx_includes_carry_in_flags() {
    // ADDX #0,R0H with R0H = 0xff, C = 1 -> 0x00, C = 1, H = 1, Z unchanged (stays 0)
    let mut cpu = cpu_with(&[0x90, 0x00]);
    cpu.er[0] = 0xff00;
    cpu.ccr = 0x01;
    step(&mut cpu).unwrap();
    assert_eq!((cpu.er[0] >> 8) & 0xff, 0);
    assert_eq!(cpu.ccr & 0x01, 0x01, "C must include the incoming carry");
    assert_eq!(cpu.ccr & 0x20, 0x20, "H must include the incoming carry");
    assert_eq!(cpu.ccr & 0x04, 0x00, "Z is only ever cleared");
}

#[test]
fn c07_unimplemented_not_executed_as_something_else() {
    // DAA R0L = 0F 08, followed by a word that mov_l would accept as a second word
    let mut cpu = cpu_with(&[0x0f, 0x08, 0x69, 0x10]);
    cpu.er[1] = RAM + 0x40;
    assert!(step(&mut cpu).is_err(), "DAA executed as MOV.L");
    // DAS R0L = 1F 08
    let mut cpu = cpu_with(&[0x1f, 0x08]);
    assert!(step(&mut cpu).is_err(), "DAS executed as CMP.L");
    // LDC.W @ER1,CCR = 0140 6910
    let mut cpu = cpu_with(&[0x01, 0x40, 0x69, 0x10]);
    cpu.er[1] = RAM + 0x40;
    assert!(step(&mut cpu).is_err(), "LDC.W executed as STC.W");
    // LDC.W @ER1+,CCR = 0140 6D10
    let mut cpu = cpu_with(&[0x01, 0x40, 0x6d, 0x10]);
    cpu.er[1] = RAM + 0x40;
    assert!(step(&mut cpu).is_err(), "LDC.W executed as STC.W");
    // LDC.W @(d:16,ER1),CCR = 0140 6F10 0000
    let mut cpu = cpu_with(&[0x01, 0x40, 0x6f, 0x10, 0x00, 0x00]);
    cpu.er[1] = RAM + 0x40;
    assert!(step(&mut cpu).is_err(), "LDC.W executed as STC.W");
    // LDC.W @(d:24,ER1),CCR = 0140 7810 6B20 0000 0000
    let mut cpu = cpu_with(&[0x01, 0x40, 0x78, 0x10, 0x6b, 0x20, 0x00, 0x00, 0x00, 0x00]);
    cpu.er[1] = RAM + 0x40;
    assert!(step(&mut cpu).is_err(), "LDC.W executed as STC.W");
}

#[test]
fn c15_no_panic_on_guest_values() {
    fn no_panic(name: &str, f: impl FnOnce() + std::panic::UnwindSafe) {
        assert!(std::panic::catch_unwind(f).is_ok(), "{} panicked", name);
    }
    no_panic("INC.B 0xff", || {
        let mut cpu = cpu_with(&[0x0a, 0x00]);
        cpu.er[0] = 0xff00;
        let _ = step(&mut cpu);
    });
    no_panic("INC.W #1 0xffff", || {
        let mut cpu = cpu_with(&[0x0b, 0x50]);
        cpu.er[0] = 0xffff;
        let _ = step(&mut cpu);
    });
    no_panic("INC.L #1 0xffffffff", || {
        let mut cpu = cpu_with(&[0x0b, 0x70]);
        cpu.er[0] = 0xffffffff;
        let _ = step(&mut cpu);
    });
    no_panic("MOV.B R0L,@-ER1 with ER1 = 0", || {
        let mut cpu = cpu_with(&[0x6c, 0x98]);
        cpu.er[1] = 0;
        let _ = step(&mut cpu);
    });
    no_panic("PUSH.L with SP = 2", || {
        let mut cpu = cpu_with(&[0x01, 0x00, 0x6d, 0xf0]);
        cpu.er[7] = 2;
        let _ = step(&mut cpu);
    });
    no_panic("BSR with SP = 0", || {
        let mut cpu = cpu_with(&[0x55, 0x02]);
        cpu.er[7] = 0;
        let _ = step(&mut cpu);
    });
    no_panic("JSR @ER1 with SP = 0", || {
        let mut cpu = cpu_with(&[0x5d, 0x10]);
        cpu.er[7] = 0;
        let _ = step(&mut cpu);
    });
    no_panic("BTST R1L,R0L with R1L = 0x20", || {
        let mut cpu = cpu_with(&[0x63, 0x98]);
        cpu.er[1] = 0x20;
        let _ = step(&mut cpu);
    });
    no_panic("MOV.W @0xffffffff:24", || {
        let mut cpu = cpu_with(&[0x6b, 0x20, 0xff, 0xff, 0xff, 0xff]);
        let _ = step(&mut cpu);
    });
    no_panic("unimplemented opcode below the load base", || {
        let mut cpu = Cpu::new();
        cpu.pc = 0x400000;
        let _ = step(&mut cpu); // 0000 = NOP, unimplemented
    });
}
