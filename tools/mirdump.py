#!/usr/bin/env python3
"""compact MIR pretty printer over the facts: mirdump.py <body-suffix> [block...]"""
import sys, os, json
sys.path.insert(0, os.path.join(os.path.dirname(os.path.abspath(__file__)), "..", "engine", "h8lint"))
import facts
F = facts.load("dev")
def pl(p):
    s = "_%d" % p["l"]
    for pr in p["p"]:
        k = pr["k"]
        if k == "deref": s = "(*%s)" % s
        elif k == "field": s += "." + str(pr["n"])
        elif k == "index": s += "[_%d]" % pr["l"]
        elif k == "downcast": s += " as " + pr["n"]
        elif k == "cindex": s += "[%d]" % pr["off"]
        else: s += "<%s>" % k
    return s
def op(o):
    if o["k"] in ("copy", "move"): return ("" if o["k"] == "copy" else "move ") + pl(o["p"])
    if o["k"] == "const":
        v = o["v"]
        if "int" in v: return "const %s%s" % (v["int"], ":" + v["vname"] if "vname" in v else "")
        if "fn" in v: return "fn " + v["fn"].split("::")[-1]
        if "str" in v: return "str %r" % v["str"][:30]
        return "const " + json.dumps(v)[:60]
    return "?"
def rv(r):
    k = r["k"]
    if k == "use": return op(r["o"])
    if k in ("ref", "rawptr"): return ("&mut " if r["mut"] else "&") + pl(r["p"])
    if k == "cast": return "%s as %s [%s]" % (op(r["o"]), F.types[r["ty"]]["s"], r["ck"])
    if k == "bin": return "%s(%s, %s)" % (r["op"], op(r["a"]), op(r["b"]))
    if k == "un": return "%s(%s)" % (r["op"], op(r["o"]))
    if k == "discr": return "discr(%s)" % pl(r["p"])
    if k == "agg": return "%s%s(%s)" % (r["ak"], ":" + r.get("vname", "") if r["ak"] == "adt" else "", ", ".join(op(o) for o in r["ops"]))
    return k + " " + json.dumps(r)[:80]
b = F.body(sys.argv[1])
sel = set(int(x) for x in sys.argv[2:])
print(b["key"], "argc", b["argc"])
for i, l in enumerate(b["locals"]):
    if l["n"]: print("  _%d: %s (%s)" % (i, F.types[l["ty"]]["s"], l["n"]))
for i, bl in enumerate(b["blocks"]):
    if bl["cleanup"] or (sel and i not in sel): continue
    print("bb%d:" % i)
    for s in bl["st"]:
        if s["k"] == "assign": print("   %s = %s" % (pl(s["p"]), rv(s["r"])))
    t = bl["term"]; k = t["k"]
    if k == "call": print("   %s = CALL %s(%s) -> bb%s  [ln %s]" % (pl(t["dest"]), (t["callee"]["path"] or "?"), ", ".join(op(a) for a in t["args"]), t["target"], t["ln"]))
    elif k == "switch": print("   SWITCH %s %s else bb%s" % (op(t["o"]), t["targets"], t["otherwise"]))
    elif k == "assert": print("   ASSERT %s==%s %s(%s) -> bb%s" % (op(t["cond"]), t["expected"], t["msg"]["kind"], ", ".join(op(o) for o in t["msg"]["ops"]), t["target"]))
    elif k in ("goto", "drop"): print("   %s -> bb%s" % (k, t["target"]))
    else: print("   " + k)
