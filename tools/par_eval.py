#!/usr/bin/env python3
"""par_eval.py [-j N] [names...]: like seeded_eval.py but on scratch copies of /repo (H8_REPO), several changes in parallel, without
touching /repo, /verif/evidence or /verif/replay.  For each seeded/<name>/patch.diff: copy /repo's working tree, apply the patch, run all
20 quick rules (--json-out: raw finding keys + checker errors), subtract the known findings, and record which properties flag it.
Merges into seeded/RESULTS.json.  Nothing is executed from the scratch copies: the rules only read their MIR."""
import json, os, shutil, subprocess, sys, tempfile
from concurrent.futures import ThreadPoolExecutor
V = "/verif"
args = sys.argv[1:]
TARGET_ONLY = False
if args and args[0] == "--target-only":
    TARGET_ONLY = True; args = args[1:]      # seeded faults: run only the target property's rule (benign changes always get all twenty)
J = 4
if args and args[0] == "-j":
    J = int(args[1]); args = args[2:]
names = args or sorted(d for d in os.listdir(V + "/seeded") if os.path.isdir(V + "/seeded/" + d))
props = ["C%02d" % i for i in range(1, 21)]
known = {}
for k in json.load(open(V + "/known_findings.json")).get("known", []):
    known.setdefault(k["property"], set()).add(k["key"])


def one(n):
    d = V + "/seeded/" + n
    tmp = tempfile.mkdtemp(prefix="h8par-")
    try:
        scratch = tmp + "/repo"
        subprocess.check_call(["rsync", "-a", "--exclude", "target", "--exclude", ".git", "/repo/", scratch + "/"])
        pa = subprocess.run(["patch", "-p1", "-s", "--no-backup-if-mismatch", "-d", scratch, "-i", d + "/patch.diff"], stdout=subprocess.PIPE, stderr=subprocess.STDOUT, text=True)
        if pa.returncode != 0:
            return n, None, "patch does not apply: " + pa.stdout[-200:]
        hit = {}
        meta_ = json.load(open(d + "/meta.json")) if os.path.exists(d + "/meta.json") else {}
        only_ = (meta_.get("property") or "")[:3] if (TARGET_ONLY and meta_.get("kind") != "benign-refactoring") else None
        for p in ([only_] if only_ in props else props):
            out = "%s/%s.json" % (tmp, p)
            env = dict(os.environ, H8_REPO=scratch, PYTHONHASHSEED="0")
            pr = subprocess.run([sys.executable, V + "/engine/h8lint/cli.py", p, "--tier", "quick", "--json-out", out], env=env, stdout=subprocess.PIPE, stderr=subprocess.STDOUT, text=True)
            if not os.path.exists(out):
                hit[p] = (2, ["checker failed: " + pr.stdout[-300:]])
                continue
            r = json.load(open(out))
            fnd = [k for k in r["findings"] if k not in known.get(p, ())]
            if fnd:
                hit[p] = (1, fnd[:4])
            elif r["errors"]:
                hit[p] = (2, [e[:300] for e in r["errors"][:3]])
            else:
                hit[p] = (0, [])
        return n, hit, None
    finally:
        shutil.rmtree(tmp, ignore_errors=True)


resf = os.environ.get("H8_RESULTS", V + "/seeded/RESULTS.json")
results = json.load(open(resf)) if os.path.exists(resf) else {}
with ThreadPoolExecutor(J) as ex:
    for n, hit, err in ex.map(one, names):
        if err:
            print(n, err); continue
        meta = json.load(open(V + "/seeded/%s/meta.json" % n)) if os.path.exists(V + "/seeded/%s/meta.json" % n) else {}
        target = (meta.get("property") or "")[:3] or None
        flagged = sorted(p for p, (rc, ls) in hit.items() if rc == 1)
        errored = sorted(p for p, (rc, ls) in hit.items() if rc == 2)
        benign = meta.get("kind") == "benign-refactoring"
        if TARGET_ONLY and not benign and n in results:
            old_ = results[n]      # keep the cross-check columns of the last full run
            flagged = sorted(set(flagged) | (set(old_.get("flagged_by", [])) - {target}))
        results[n] = {"property": target, "kind": "benign-refactoring" if benign else "seeded-fault", "flagged_by": flagged, "checker_errors": errored,
                      "caught": (not flagged) if benign else (target in flagged if target else bool(flagged)),
                      "first_report": {p: [l[:220] for l in hit[p][1][:2]] for p in flagged + errored if p in hit}}
        print(n, "BENIGN" if benign else "fault", "target", target, "flagged by", flagged, "errors", errored, "" if results[n]["caught"] else "   <<<<<< NOT AS EXPECTED", flush=True)
        json.dump(results, open(resf, "w"), indent=1)
