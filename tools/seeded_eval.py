#!/usr/bin/env python3
"""seeded_eval.py [names...]: applies each /verif/seeded/<name>/patch.diff to /repo, runs all 20 quick checks,
records which raise a VIOLATION, and undoes the change.  Writes /verif/seeded/RESULTS.json."""
import json, os, subprocess, sys


def finish(pr):
    try:
        out, _ = pr.communicate(timeout=3000)
        return pr.returncode, out
    except subprocess.TimeoutExpired:
        pr.kill()
        subprocess.call(["pkill", "-f", "h8lint/cli.py"])
        return 3, "CHECKER-ERROR timeout"
V = "/verif"
names = sys.argv[1:] or sorted(d for d in os.listdir(V + "/seeded") if os.path.isdir(V + "/seeded/" + d))
props = ["C%02d" % i for i in range(1, 21)]
resf = V + "/seeded/RESULTS.json"
results = json.load(open(resf)) if os.path.exists(resf) else {}
for n in names:
    d = V + "/seeded/" + n
    assert subprocess.call(["git", "-C", "/repo", "status", "--porcelain"], stdout=subprocess.DEVNULL) == 0
    if subprocess.check_output(["git", "-C", "/repo", "status", "--porcelain"], text=True).strip():
        print("refusing: /repo is dirty"); sys.exit(2)
    if subprocess.call(["git", "-C", "/repo", "apply", d + "/patch.diff"]) != 0:
        print(n, "patch does not apply"); continue
    hit = {}
    try:
        procs = {p: subprocess.Popen([V + "/check", p, "--tier", "quick"], stdout=subprocess.PIPE, stderr=subprocess.STDOUT, text=True, cwd=V) for p in props[:1]}
        # warm the facts cache with one check, then the rest in parallel
        for p, pr in procs.items():
            rc_, out = finish(pr); hit[p] = (rc_, [l for l in out.splitlines() if l.startswith("  ") or l.startswith("VIOLATION") or l.startswith("CHECKER-ERROR")][:6])
        rest = props[1:]
        for i in range(0, len(rest), 6):
            procs = {p: subprocess.Popen([V + "/check", p, "--tier", "quick"], stdout=subprocess.PIPE, stderr=subprocess.STDOUT, text=True, cwd=V) for p in rest[i:i + 6]}
            for p, pr in procs.items():
                rc_, out = finish(pr); hit[p] = (rc_, [l for l in out.splitlines() if l.startswith("  ") or l.startswith("VIOLATION") or l.startswith("CHECKER-ERROR")][:6])
    finally:
        subprocess.call(["git", "-C", "/repo", "checkout", "--", "."])
    meta = json.load(open(d + "/meta.json")) if os.path.exists(d + "/meta.json") else {}
    target = (meta.get("property") or "")[:3] or None
    flagged = sorted(p for p, (rc, ls) in hit.items() if rc == 1)
    errored = sorted(p for p, (rc, ls) in hit.items() if rc not in (0, 1))
    benign = meta.get("kind") == "benign-refactoring"
    results[n] = {"property": target, "kind": "benign-refactoring" if benign else "seeded-fault", "flagged_by": flagged, "checker_errors": errored,
                  "caught": (not flagged) if benign else (target in flagged if target else bool(flagged)),
                  "first_report": {p: [l[:220] for l in hit[p][1][:2]] for p in flagged + errored}}
    print(n, "BENIGN" if benign else "fault", "target", target, "flagged by", flagged, "errors", errored)
    json.dump(results, open(resf, "w"), indent=1)
