#!/bin/sh
# try_seed.sh <seed-name|patch-file> <Cxx>... : applies the change to a scratch copy of /repo (never /repo itself) and prints the raw
# finding keys / checker errors of the named rules (no evidence or replay files are written)
S="$1"; shift
P="/verif/seeded/$S/patch.diff"; [ -f "$P" ] || P="$S"
T=$(mktemp -d /tmp/h8try-XXXXXX)
rsync -a --exclude target --exclude .git /repo/ "$T/repo/"
patch -p1 -s --no-backup-if-mismatch -d "$T/repo" -i "$P" || { echo "patch does not apply"; rm -rf "$T"; exit 2; }
for p in "$@"; do
  H8_REPO="$T/repo" PYTHONHASHSEED=0 python3 /verif/engine/h8lint/cli.py $p --tier quick --json-out "$T/$p.json" > "$T/$p.log" 2>&1
  if [ -f "$T/$p.json" ]; then python3 -c "
import json,sys
r=json.load(open('$T/$p.json'))
print('$p findings:', r['findings'][:8])
for e in r['errors'][:6]: print('   error:', e[:400])
"; else echo "$p: checker failed"; tail -5 "$T/$p.log"; fi
done
rm -rf "$T"
