#!/bin/sh
# seed_confirm.sh <out-dir> <name>: confirms a seeded change in a scratch worktree of /repo and stores it under /verif/seeded/<name>/
# (1) patch applies, crate builds, the 226 baseline tests pass with it; (2) the demo fails with the patch; (3) the demo passes without it.
set -u
OUT="$1"; NAME="$2"
WT=/tmp/seedwt-$NAME; TG=/tmp/seedwt-$NAME-target
rm -rf "$WT"; git -C /repo worktree prune; git -C /repo worktree add -q --detach "$WT" HEAD || exit 2
cd "$WT"
res="{}"
git apply "$OUT/patch.diff" || { echo "PATCH DOES NOT APPLY"; git -C /repo worktree remove --force "$WT"; exit 2; }
base=$(CARGO_TARGET_DIR=$TG cargo test --offline 2>&1 | grep "test result" | tail -1)
echo "with patch, baseline: $base"
cp "$OUT/demo.rs" src/cpu/seeded_demo.rs; printf '\n#[cfg(test)]\nmod seeded_demo;\n' >> src/cpu.rs
with=$(CARGO_TARGET_DIR=$TG cargo test --offline seeded_demo 2>&1 | grep -E "test result|^error" | tail -1)
echo "with patch, demo: $with"
git apply -R "$OUT/patch.diff"
without=$(CARGO_TARGET_DIR=$TG cargo test --offline seeded_demo 2>&1 | grep -E "test result|^error" | tail -1)
echo "without patch, demo: $without"
cd /; git -C /repo worktree remove --force "$WT"; rm -rf "$TG"
case "$base" in *"226 passed; 0 failed"*) ;; *) echo "REJECT: baseline not green"; exit 1;; esac
case "$with" in *"FAILED"*|*"failed"*) case "$with" in *" 0 failed"*) echo "REJECT: demo does not fail with patch"; exit 1;; esac;; *) echo "REJECT: demo does not fail with patch"; exit 1;; esac
case "$without" in *"ok."*" 0 failed"*) ;; *) echo "REJECT: demo does not pass without patch"; exit 1;; esac
mkdir -p /verif/seeded/$NAME
cp "$OUT/patch.diff" "$OUT/demo.rs" /verif/seeded/$NAME/
python3 - "$OUT" "$NAME" "$base" "$with" "$without" <<'PY'
import json,sys,os
out,name,base,w,wo=sys.argv[1:6]
m={}
try: m=json.load(open(os.path.join(out,'meta.json')))
except Exception as e: m={"note":"agent meta.json unreadable: %s"%e}
m["confirmed_by_me"]={"with_patch_baseline":base,"with_patch_demo":w,"without_patch_demo":wo,"how":"tools/seed_confirm.sh in a scratch worktree of /repo (removed afterwards)"}
json.dump(m,open('/verif/seeded/%s/meta.json'%name,'w'),indent=1)
PY
echo "ACCEPTED $NAME"
