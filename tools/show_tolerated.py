#!/usr/bin/env python3
"""prints the reviewed table of tolerated undefined encodings as word patterns (one cube per line; - = any)"""
import json, os, sys
HERE = os.path.dirname(os.path.abspath(__file__))
t = json.load(open(os.path.join(HERE, "..", "engine", "h8lint", "tolerated_reserved.json")))["by_first_byte"]
for hb, d in sorted(t.items()):
    nodes = d["nodes"]
    def paths(i, cur):
        if i == 0: return
        if i == 1:
            yield dict(cur); return
        name, lo, hi = nodes[i - 2]
        cur[name] = 0; yield from paths(lo, cur)
        cur[name] = 1; yield from paths(hi, cur)
        del cur[name]
    cubes = list(paths(d["root"], {}))
    print("H'%s: %d cube(s)" % (hb.upper(), len(cubes)))
    for c in cubes[:int(sys.argv[1]) if len(sys.argv) > 1 else 6]:
        nw = max(int(n[1:].split(".")[0]) for n in c) + 1
        ws = []
        for k in range(nw):
            w = "".join(str(c["w%d.%d" % (k, b)]) if "w%d.%d" % (k, b) in c else "-" for b in range(15, -1, -1))
            ws.append(" ".join(w[i:i+4] for i in range(0, 16, 4)))
        print("    " + " | ".join(ws))
