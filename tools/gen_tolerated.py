#!/usr/bin/env python3
"""gen_tolerated.py: (re)generates engine/h8lint/tolerated_reserved.json from the CURRENT /repo tree - the set of word sequences that
encode no H8/300H instruction but are executed successfully because the emulator ignores reserved / must-be-zero bits.  Run it only on a
tree whose decode behaviour has been reviewed (the pinned commit + fix commits); the table is the reviewed reference for the C07 rule
'undefined-executed'.  Prints a per-first-byte summary for DESIGN.md."""
import json, os, sys
HERE = os.path.dirname(os.path.abspath(__file__))
sys.path.insert(0, os.path.join(HERE, "..", "engine", "h8lint"))
import facts as factsmod, isarun
out = os.path.join(HERE, "..", "engine", "h8lint", "tolerated_reserved.json")
if os.path.exists(out):
    os.rename(out, out + ".old")
agg = isarun.run(factsmod.load("dev").path)
tab = agg.get("stray", {})
json.dump({"note": "reviewed table: undefined encodings the emulator executes at the pinned commit (reserved bits ignored); BDD node lists over instruction-word bits",
           "by_first_byte": {k: tab[k] for k in sorted(tab)}}, open(out, "w"), indent=0)
print("first bytes with tolerated undefined encodings:", " ".join(sorted(tab)))
print("nodes:", sum(len(v["nodes"]) for v in tab.values()))
