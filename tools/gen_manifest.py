#!/usr/bin/env python3
"""Regenerates /verif/MANIFEST.json from the table below (kept valid at all times)."""
import json
import os
import subprocess

VERIF = os.path.dirname(os.path.dirname(os.path.abspath(__file__)))
props = [json.loads(l) for l in open(os.path.join(VERIF, "properties.jsonl"))]

ISA_NOTE = ("Trusted: rustc's MIR construction (dev profile, overflow checks on), the h8facts serialisation, the transfer functions of the abstract "
            "interpreter (interp.py/models.py), the ROBDD package, and the hand-transcribed reference semantics spec.py. Bus::read/write, Cpu::fetch and "
            "calc_state(_with_addr) are summarised in the instruction-level analysis and validated separately (C09, fetch-summary rule, C19).")

CHECKS = {
    "C01": ("abstract interpretation of MIR (BDD bit-vector domain, trace partitioning) + comparison with reference semantics",
            "Decides, for every MOV encoding, register number, data value, CCR value and address at once: moved value, N/Z/V, untouched flags, all eight "
            "registers (incl. +/- step), ordered big-endian byte accesses at the EA, PC advance = encoded length. Exhaustive over the decode space; "
            "values are symbolic (BDD equality), nothing is executed.", "4 C01"),
    "C02": ("abstract interpretation of MIR (BDD bit-vector domain) + comparison with reference semantics",
            "Decides result and H/N/Z/V/C as exact boolean functions for all 8/16/32-bit operand values and register numbers of ADD/SUB/CMP/ADDX/NEG/"
            "INC/DEC/ADDS/SUBS; MULXU.W/DIVXU products and quotients are compared as uninterpreted functions of the routed operands (operand routing, "
            "lane placement and flag sources are decided; the arithmetic of * and / itself is rustc's).", "4 C02"),
    "C03": ("abstract interpretation of MIR (BDD bit-vector domain) + comparison with reference semantics",
            "Bit-for-bit decision of result, N, Z, V, C and of every untouched CCR bit/register for the 47 logic/shift/rotate forms, all operand values.", "4 C03"),
    "C04": ("abstract interpretation of MIR (BDD bit-vector domain) + comparison with reference semantics",
            "For all 256 byte values x 8 bit numbers x C, all register numbers: operand byte after BSET/BCLR/BNOT/BST/BIST, Z of BTST, C of the eight "
            "bit-combine forms, nothing else written; register, @ERd and @aa:8 operands.", "4 C04"),
    "C05": ("abstract interpretation of MIR (BDD bit-vector domain) + comparison with reference semantics",
            "Condition table of the 32 Bcc forms over all 256 CCR values (exact), targets, frame bytes at SP-4, SP update, 24-bit PC, no flag/register/"
            "memory side effects; per-instruction only (arbitrary nesting follows by induction, not mechanised).", "4 C05"),
    "C06": ("abstract interpretation of MIR (BDD bit-vector domain) + comparison with reference semantics",
            "Frame layout (CCR:PC24 at SP-4), SP, I bit, vector address 4*v / 0x20+4*n, PC from the low 24 bits for TRAPA #1-3 and Cpu::interrupt (all "
            "vectors 1-63); RTE restores CCR/PC/SP from the frame. Entry∘RTE identity follows from the two summaries.", "4 C06"),
    "C07": ("abstract interpretation of MIR: decode partition by BDD path conditions over the instruction words",
            "All 2^16 first words and all continuation words symbolically: every valid encoding of the 238 implemented forms consumes its encoded length "
            "and is not rejected; the 27 patterns of the listed unimplemented instructions have no Ok path; traces partition the input space; the set of "
            "successfully executed word sequences outside all valid encodings is contained in the reviewed table of reserved-bit patterns the emulator "
            "ignores (a continuation word of the wrong group accepted under a prefix is reported); a form whose every deviating execution has exactly "
            "the effect of a sibling form with the same operand fields is reported as decoded as the wrong instruction.", "4 C07"),
    "C08": ("abstract interpretation of MIR (BDD bit-vector domain): address operand of every bus access vs manual EA",
            "Every Bus::read/Bus::write address reached from an instruction, and every address-register write-back, equals the manual's EA modulo 2^24 "
            "for all register values including non-zero upper bytes and wrapping sums.", "4 C08"),
    "C20": ("abstract interpretation of MIR: effect summary of cost terms vs the manual's advanced-mode cycle table",
            "For all 238 forms: multiset of (kind, count, address) cost terms equals the table; address operands compared as bit-vectors with the EA / "
            "stack / vector address; returned charge == sum of the terms for all values.", "4 C20"),
    "C09": ("abstract interpretation of MIR over a symbolic address (array abstraction of the backing stores) + who-may-write scan",
            "All 2^32 addresses at once: accepted set == the five regions for read and write, errors touch nothing, each region maps injectively "
            "(addr - START) into its own store, read/write agree, plain writes store exactly the written byte once; every other writer of the stores in "
            "the crate is enumerated; the 18 CPU access helpers read/write_abs{8,16,24}_{b,w,l} make exactly size byte accesses at EA+i, most significant byte "
            "first, return the big-endian composition, Ok iff every byte succeeded. The history clause follows from these frame facts by induction (stated).", "4 C09"),
    "C19": ("abstract interpretation of MIR with symbolic address, count and bus-controller registers; BDD equality with the reference cost function",
            "Complete decision table of calc_state_with_addr for the six kinds, all addresses, all ABWCR/ASTCR/WCRH/WCRL/DRCRA values, counts 0-18: "
            "equals the reference (1 / 2 / 2 / 3+w / 4+w, doubled for word kinds on an 8-bit bus), linear in the count, independent of other areas; "
            "calc_state costs at operating_pc and rejects L/M; panics of the cost function are judged on all addresses.", "4 C19"),
    "C10": ("abstract interpretation of request_interrupt / try_interrupt over a symbolic controller state + explicit fixpoint over the abstract controller states "
            "(aux fields x queue emptiness), starvation-cycle search, who-may-call tables",
            "Inductive over all request/boundary histories at the abstraction (queue = pending / pending>=2 + push/pop effects): in every reachable "
            "controller state a request is popped/entered only when CCR.I = 0, entered == popped, one pop per boundary, one push of the requested number "
            "per request, no dropping/merging queue operation, and no cycle of boundaries with I clear and a request pending in which nothing is taken; "
            "interrupt() only from try_interrupt only from run, before fetch, never from exec; requesters pass constants in 1..63.", "4 C10"),
    "C13": ("abstract interpretation of one generalised iteration of Cpu::run (loop-carried state havocked at the loop header) + call-graph denylist",
            "For all counter values, charges, PCs: error propagation, Ok only at PC == exit address, one time base (3 x charge added to the total, mirrored to "
            "the bus before peripherals, same amount given to peripherals), sync exactly at each 2,000,000 crossing with the new total, counter invariant; "
            "host-clock taint reaches no guest-visible value or effect argument; no nondeterminism source reachable from run; float->Duration conversions "
            "are non-negative by construction (sign analysis), so host time cannot panic the run; side conditions of the summaries: nothing reachable "
            "from a summarised step stores into Cpu.state_sum / Bus.cpu_state_sum (who-may-write), and every instruction leaves the upper byte of the "
            "PC field clear (taken from the instruction-level analysis) so that the 32-bit exit test is exact.", "4 C13"),
    "C18": ("abstract interpretation over abstract strings (terms): message loop of run, parse_u8/parse_ioport, send worker; call-chain facts of the channel plumbing",
            "Two consecutive symbolic lines per batch: the second is always fetched unless the first is cmd:stop; keyword dispatch, pause flag function, "
            "parse rules (3 fields, hex, errors swallowed, no panic), written text == escape(m)+newline (replace-chain term, or per-element transducer "
            "check over all byte / scalar values for piecewise-built text), one write+flush per message; receive worker (CFG path rules): on every path "
            "between two read_line calls the line buffer is reset and the line is forwarded at most once.", "4 C18"),
    "C16": ("abstract interpretation of the three port handlers over array abstractions (symbolic port number and values); cofactor test",
            "Composed rule: Bus::write itself (whatever it calls) equals the per-bit reference for every DDR / DR window address and changed value; the bus "
            "clock used as time stamp is written only by the run loop's accounting. Routing: for all 2^32 addresses Bus::write invokes the DDR / DR handler exactly for the 11 DDR / DR addresses of ports 1-B, with the "
            "written address and value, whenever the value differs from the stored one (a window address that is not routed, or a routed address outside "
            "the window, is reported; handler panics are judged on the addresses really routed). Per bit, all values, all 11 ports: stored DR after DR/DDR/pin events, pin recording, isolation of the port's three cells, invalid ports "
            "ignored, every step announces DR'&DDR' with the current state count or leaves the driven value unchanged; latch retention refuted by a "
            "cofactor test (known finding). Arbitrary interleavings are the closure of the step functions (not mechanised).", "4 C16"),
    "C17": ("abstract interpretation of update_tcr, the accumulation prologue and one generalised tick of update_timer8_0; who-writes-field value sets",
            "TCR decode tables, phase bound and phase preservation at a clock change, ticks = (residual+states) div divisor / residual mod divisor for "
            "every divisor, one tick == reference (TCNT+1, selected clear, sticky exact flags, one request per enabled event), exact loop count, only "
            "TCNT0/TCSR0 stored, no Bus::write re-entry; registers kept in locals across the ticks are followed (role by entry value, write-back at loop exit); "
            "a request deferred through a record that cannot count (idempotent update) while the event can recur within one charge is reported. Partition-equivalence over whole histories follows by telescoping (stated).", "4 C17"),
    "C14": ("abstract interpretation of the MES gate with the copy loop generalised at its header (base case, inductive step, exit), byte vectors/strings as terms",
            "Dispatch on ER0 (104/113/else error); write: argument block at ER1+0/4/8, loop invariant 'vector == bytes buffer[0..i)', one byte read at "
            "buffer+i and appended per iteration, exit exactly at i == length, same text printed once and sent once, no register/CCR/PC/memory write; "
            "set_handler: store at 4*v only for 1<=v<=63 with the handler address in the low 24 bits; no UTF-8 validation of a data-independent part of "
            "the buffer. Byte-exact output follows by induction (stated).", "4 C14"),
    "C15": ("abstract interpretation of every body reachable from run (panic branch path conditions as BDDs) + obligation census with allow-list + call-graph rules",
            "Every Assert terminator and panicking call site (441 sites, 402 bodies) is either shown infeasible in all analysed contexts, reported with a "
            "concrete witness, or allow-listed with a reason; unanalysed bodies with obligations fail closed; cost-function counts bounded in every analysed calling context (literal or passed through helpers); "
            "RefCell re-entrancy excluded by reachability. Dev-profile MIR (overflow checks on) covers both build configurations.", "4 C15"),
    "C11": ("abstract interpretation of the ELF parsers over an abstract cursor and of elf::load with loops generalised at their headers (typed havoc)",
            "Every Ehdr/Phdr/Shdr/Sym field is the big-endian integer at its ELF32 offset; PT_LOAD <=> p_type 1; a copy happens exactly for PT_LOAD headers "
            "from file[p_offset..+p_filesz) to DRAM H'416900+p_vaddr, no other store; GOT: only for .got, entry i read big-endian at H'416900+sh_addr+4i, "
            "base added once, written back to the same bytes, sh_size/4 iterations from entry 0 (symbolic i), no guard skips a non-empty .got, ER5; the loops "
            "iterate the complete file tables (count(parser, e_phnum/e_shnum) at e_phoff/e_shoff, element-preserving adaptors only). Whole-file byte "
            "presence / zero fill follow from these (stated).", "4 C11"),
    "C12": ("abstract interpretation of elf::load with loops generalised at their headers; layout formulas compared as BDD bit-vectors",
            "ER2 = base; image end only from headers tested PT_LOAD (max of p_paddr+p_memsz); ER7 = align4up(base+image end+size)-8; argument block at "
            "align4up(stack end+88); ER0 = vector length after inserting prog.elf at 0; ER1; argc+1 slots; per-argument slot/byte/NUL steps; exit address "
            "= st_value+base only for ___exit via the sh_link string table, over every symbol of the table (sh_size/sh_entsize records at sh_offset, no "
            "lossy adaptor). In-DRAM bounds and the word count itself are not decided.", "4 C12"),
}

checks = []
for pid in sorted(CHECKS):
    tech, text, ref = CHECKS[pid]
    checks.append({
        "property_id": pid,
        "quick_cmd": "./check %s --tier quick" % pid,
        "thorough_cmd": "./check %s --tier thorough" % pid,
        "evidence_file": "evidence/%s.json" % pid,
        "replay_cmd_template": "./check %s --replay {path}" % pid,
        "engine": "h8lint",
        "level_claimed": {"category": "other", "text": text, "design_ref": "DESIGN.md section " + ref},
        "level_note": ISA_NOTE,
        "technique": tech,
    })
na = [{"property_id": p["id"], "reason": "rule not yet armed (framework under construction; see DESIGN.md section 9)"} for p in props if p["id"] not in CHECKS]
m = {
    "version": 1,
    "setup_cmd": "cd /verif && ./check --setup",
    "hooks": {"guard": "kogepan229_koge29_h8_3069f_emulator_verif", "enable": "none needed: static analysis reads the crate as the real build compiles it",
              "baseline_off_cmd": "cd /repo && cargo test --workspace --no-fail-fast --offline", "source_commits": [], "add_only": True},
    "engines": [
        {"name": "h8facts", "path": "engine/h8facts", "serves_properties": [p["id"] for p in props], "kind_free_text": "rustc_private driver dumping type-checked MIR (resolved callees, evaluated constants) as JSON facts"},
        {"name": "h8lint", "path": "engine/h8lint", "serves_properties": [p["id"] for p in props], "kind_free_text": "Python abstract interpreter (BDD bit-vector domain), CFG/call-graph/effect rules over the MIR facts, reference tables"},
    ],
    "checks": checks,
    "notes": "Static analysis only (DESIGN.md). quick = the rule on the dev-profile MIR of /repo's working tree; thorough = quick + the same rule on the release-profile MIR + "
             "mutation controls (selftest/*.patch applied to scratch copies of the working tree: seeded faults must be reported, benign variants must stay silent). Genuine defects found are repaired by fix: commits in /repo or listed in known_findings.json.",
    "not_applicable": na,
}
json.dump(m, open(os.path.join(VERIF, "MANIFEST.json"), "w"), indent=1)
print("manifest: %d checks, %d not applicable" % (len(checks), len(na)))
