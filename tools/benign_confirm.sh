#!/bin/sh
# benign_confirm.sh <out-dir> <name>: confirms a behaviour-preserving refactoring produced by a sub-agent in a scratch worktree of /repo
# (patch applies, crate builds, the 226 baseline tests pass, the optional differential test check.rs passes) and stores it under /verif/seeded/<name>/
set -u
OUT="$1"; NAME="$2"
WT=/tmp/seedwt-$NAME; TG=/tmp/seedwt-$NAME-target
rm -rf "$WT"; git -C /repo worktree prune; git -C /repo worktree add -q --detach "$WT" HEAD || exit 2
cd "$WT"
git apply "$OUT/patch.diff" || { echo "PATCH DOES NOT APPLY"; cd /; git -C /repo worktree remove --force "$WT"; exit 2; }
base=$(CARGO_TARGET_DIR=$TG cargo test --offline 2>&1 | grep "test result" | tail -1)
echo "with patch, baseline: $base"
diffres="(no differential test)"
if [ -f "$OUT/check.rs" ]; then
  cp "$OUT/check.rs" src/cpu/refactor_check.rs; printf '\n#[cfg(test)]\nmod refactor_check;\n' >> src/cpu.rs
  diffres=$(CARGO_TARGET_DIR=$TG cargo test --offline refactor_check 2>&1 | grep -E "test result|^error" | tail -1)
  echo "differential test: $diffres"
fi
lines=$(grep -c '^[+-][^+-]' "$OUT/patch.diff")
cd /; git -C /repo worktree remove --force "$WT"; rm -rf "$TG"
case "$base" in *"226 passed; 0 failed"*) ;; *) echo "REJECT: baseline not green"; exit 1;; esac
case "$diffres" in *"FAILED"*|*"error"*) echo "REJECT: differential test fails"; exit 1;; esac
mkdir -p /verif/seeded/$NAME
cp "$OUT/patch.diff" /verif/seeded/$NAME/
[ -f "$OUT/check.rs" ] && cp "$OUT/check.rs" /verif/seeded/$NAME/
python3 - "$OUT" "$NAME" "$base" "$diffres" "$lines" <<'PY'
import json,sys,os
out,name,base,d,lines=sys.argv[1:6]
m={}
try: m=json.load(open(os.path.join(out,'meta.json')))
except Exception as e: m={"note":"agent meta.json unreadable: %s"%e}
m["kind"]="benign-refactoring"
m["confirmed_by_me"]={"with_patch_baseline":base,"differential_test":d,"changed_lines":int(lines),"how":"tools/benign_confirm.sh in a scratch worktree of /repo (removed afterwards)"}
json.dump(m,open('/verif/seeded/%s/meta.json'%name,'w'),indent=1)
PY
echo "ACCEPTED $NAME ($lines changed lines)"
