#!/usr/bin/env python3
"""Generates selftest/*.patch (+ selftest/index.json) from the table of seeded faults below.
Each entry: (name, property, expected key fragment, [(file, old, new), ...])."""
import json, os, subprocess, sys
R = "/repo"
T = [
 ("c19_three_state_cost", "C19", "charge", [("src/cpu.rs", "return Ok(state * (3 + wait_state));", "return Ok(state * (2 + wait_state));")]),
 ("c09_ram_end_off_by_one", "C09", "I/O registers 2", [("src/memory.rs", "pub const MEMORY_END_ADDR: u32 = 0xffff1f;", "pub const MEMORY_END_ADDR: u32 = 0xffff20;")]),
 ("c09_dram_index_mask", "C09", "DRAM|index", [("src/bus.rs", "AREA2_START_ADDR..=AREA2_END_ADDR => self.dram[(addr - AREA2_START_ADDR) as usize] = value,", "AREA2_START_ADDR..=AREA2_END_ADDR => self.dram[((addr - AREA2_START_ADDR) & 0x1ffffe) as usize] = value,")]),
 ("c13_sync_no_subtract", "C13", "sync|", [("src/cpu.rs", "                sync_count -= SYNC_MESSAGE_INTERVAL;", "")]),
 ("c13_exit_ge", "C13", "exit|ok-without-exit-address", [("src/cpu.rs", "if self.pc == self.exit_addr {", "if self.pc >= self.exit_addr {")]),
 ("c13_clock_in_state", "C13", "determinism|", [("src/cpu.rs", "            self.bus.cpu_state_sum = self.state_sum;", "            self.bus.cpu_state_sum = self.state_sum + (loop_time.elapsed().as_micros() as usize & 1);")]),
 ("c13_sync_addend_masked", "C13", "sync|", [("src/cpu.rs", "            sync_count += state as usize;", "            sync_count += (state as usize) & !1;")]),
 ("c10_dedup_requests", "C10", "queue|methods", [("src/cpu/interrupt_controller.rs", "self.interrupt_requests.push_back(num);", "if !self.interrupt_requests.contains(&num) { self.interrupt_requests.push_back(num); }")]),
 ("c10_mask_removed", "C10", "mask|", [("src/cpu/interrupt_controller.rs", "        if self.read_ccr(crate::cpu::CCR::I) == 1 {\n            return Ok(());\n        }\n", "")]),
 ("c18_break_in_batch", "C18", "batch-abandoned", [("src/cpu.rs", "                                // a malformed line is ignored; the rest of the batch is still processed\n                                continue;", "                                break;")]),
 ("c18_escape_order", "C18", "framing|send", [("src/socket.rs", "message.replace('\\\\', \"\\\\\\\\\").replace('\\n', \"\\\\n\")", "message.replace('\\n', \"\\\\n\").replace('\\\\', \"\\\\\\\\\")")]),
 ("c18_radix10", "C18", "parse_u8|arguments", [("src/cpu/messages.rs", "let value_result = u8::from_str_radix(&list[2], 16);\n        if let Ok(addr)", "let value_result = u8::from_str_radix(&list[2], 10);\n        if let Ok(addr)")]),
 ("c16_pin_merge", "C16", "pin|DR", [("src/ioport.rs", "let dr = (self.read_dr(port) & ddr) | (!ddr & value);\n            self.write_dr(port, dr);", "let dr = (self.read_dr(port) & ddr) | value;\n            self.write_dr(port, dr);")]),
 ("c16_pin_alias_high_ports", "C16", "dr|DR", [("src/ioport.rs", "let real_dr = (dr & ddr) | (!ddr & self.io_port_in[port as usize - 1]);", "let real_dr = (dr & ddr) | (!ddr & self.io_port_in[(port as usize - 1) & 7]);")]),
 ("c17_flags_not_sticky", "C17", "tick|tcsr", [("src/modules/timer8.rs", "tcsr |= 0b0100_0000;", "tcsr = 0b0100_0000;")]),
 ("c17_divisor_32", "C17", "divisor", [("src/modules/timer8.rs", "0b0000_0010 => self.prescaler = 64,", "0b0000_0010 => self.prescaler = 32,")]),
 ("c17_double_decrement", "C17", "loop|decrement", [("src/modules/timer8.rs", "            count -= 1;", "            count -= if tcnt == 0x80 && count > 1 { 2 } else { 1 };")]),
 ("c17_phase_not_reduced", "C17", "tcr|phase-bound", [("src/modules/timer8.rs", "        if self.prescaler != 0 {\n            self.state %= self.prescaler;\n        }\n", "")]),
 ("c14_buffer_address", "C14", "write|byte-address", [("src/cpu/instruction/trapa.rs", "let char_addr = arg1.wrapping_add(i);", "let char_addr = arg1.wrapping_add(i) | (i >> 12);")]),
 ("c14_length_capped", "C14", "write|early-exit", [("src/cpu/instruction/trapa.rs", "for i in 0..arg2 {", "for i in 0..(arg2 & 0xfff) {")]),
 ("c14_vector_64", "C14", "invalid-vector-stored", [("src/cpu/instruction/trapa.rs", "if arg0 < 1 || arg0 >= 64 {", "if arg0 < 1 || arg0 > 64 {")]),
 ("c14_other_call_number", "C14", "write-for-other-id", [("src/cpu/instruction/trapa.rs", "            104 => {", "            104 | 105 => {")]),
 ("c15_checked_sub_restored", "C15", "panic", [("src/cpu/addressing_mode/dec_ern.rs", "self.write_abs24_w(addr.wrapping_sub(2) & ADDRESS_MASK, value)?;", "self.write_abs24_w((addr - 2) & ADDRESS_MASK, value)?;")]),
 ("c15_write_ccr_two", "C15", "diverging-call", [("src/cpu/instruction/not.rs", "self.change_ccr(CCR::V, false);", "self.write_ccr(CCR::V, (result >> 7) * 2);")]),
 ("c15_cost_count_20", "C15", "cost-context", [("src/cpu/instruction/mulxu.rs", "self.calc_state(StateType::N, 20)?)", "self.calc_state(StateType::I, 20)?)")]),
 ("c11_vaddr_paddr_swapped", "C11", "layout|parse_program_header32", [("src/elf/parse_program_header.rs", "    let (r, virtual_addr) = be_u32(r)?;\n    let (r, physical_addr) = be_u32(r)?;", "    let (r, physical_addr) = be_u32(r)?;\n    let (r, virtual_addr) = be_u32(r)?;")]),
 ("c11_got_page_end", "C11", "got|value", [("src/elf.rs", "global_off += PROGRAM_START_ADDR as u32;", "global_off += PROGRAM_START_ADDR as u32; if got_addr & 0xfff == 0xffc { global_off += 0x100; }")]),
 ("c11_dynamic_copied", "C11", "copied-non-load", [("src/elf.rs", "        if ph.ty == SegmentType::Load {\n            cpu.bus.dram", "        if ph.ty == SegmentType::Load || ph.ty == SegmentType::Dynamic {\n            cpu.bus.dram")]),
 ("c11_got_trip_cap", "C11", "got|trip-count", [("src/elf.rs", "for i in 0..(s.header.size / 4) {", "for i in 0..(s.header.size / 4).min(1024) {")]),
 ("c12_er7_minus_4", "C12", "stack|", [("src/elf.rs", "cpu.er[7] = a as u32 - 8;", "cpu.er[7] = a as u32 - 4;")]),
 ("c12_argv0_position", "C12", "stack|argv0", [("src/elf.rs", 'args_list.insert(0, "prog.elf");', 'args_list.insert(args_list.len().min(1), "prog.elf");')]),
 ("c12_slots", "C12", "string-area", [("src/elf.rs", "a += 4 * (args_list.len() + 1);", "a += 4 * args_list.len();")]),
 ("c12_exit_symbol", "C12", "exit|", [("src/elf.rs", 'if symtab.name == "___exit" {', 'if symtab.name == "__exit" {')]),
 ("c02_addx_halfcarry", "C02", "ADDX", [("src/cpu/instruction/addx.rs", "self.change_ccr(CCR::H, (dest & 0x0f) + (src & 0x0f) + carry > 0x0f);", "self.change_ccr(CCR::H, (dest & 0x0f) + (src & 0x0f) > 0x0f);")]),
 ("c04_bst_clear", "C04", "BST", [("src/cpu/instruction/bst.rs", "self.write_rn_b(register, value & !(1 << imm))?;", "self.write_rn_b(register, value & !(c << imm))?;")]),
 ("c05_rts_mask", "C05", "RTS|pc", [("src/cpu/instruction/rts.rs", "self.pc = self.read_inc_ern_l(7)? & 0x00ffffff;", "self.pc = self.read_inc_ern_l(7)?;")]),
 ("c07_das_as_cmp", "C07", "DAS", [("src/cpu.rs", "                0x80..=0xf7 => return self.cmp_l_rn(opcode),\n                _ => unimpl!(opcode, self.pc), // H'1F0x is DAS", "                _ => return self.cmp_l_rn(opcode),")]),
 ("c08_postinc_masked", "C08", "STC.W", [("src/cpu/addressing_mode/inc_ern.rs", "self.write_rn_l(register_field, reg.wrapping_add(2))?;", "self.write_rn_l(register_field, addr + 2)?;")]),
 ("c20_bsr_cost", "C20", "BSR d:8", [("src/cpu/instruction/bsr.rs", "Ok(self.calc_state(StateType::I, 2)? + self.calc_state_with_addr(StateType::K, 2, access_addr)?)\n    }\n\n    pub(in super::super) fn bsr_disp24", "Ok(self.calc_state(StateType::I, 2)? + self.calc_state_with_addr(StateType::K, 1, access_addr)? + self.calc_state(StateType::N, 2)?)\n    }\n\n    pub(in super::super) fn bsr_disp24")]),
 ("c01_mov_w_flag", "C01", "MOV.W", [("src/cpu/instruction/mov_w.rs", "self.write_ccr(CCR::V, 0);", "self.write_ccr(CCR::V, 0);\n        if src == 0x8000 { self.write_ccr(CCR::C, 0); }")]),
 ("c03_rotxl_carry", "C03", "ROTXL", None),
 ("c06_rte_ccr", "C06", "RTE", [("src/cpu/instruction/rte.rs", "self.ccr = (ccr_pc >> 24) as u8;", "self.ccr = (ccr_pc >> 24) as u8 & 0xef;")]),
]
def main():
    idx = []
    assert not subprocess.check_output(["git", "-C", R, "status", "--porcelain"], text=True).strip(), "/repo dirty"
    for name, prop, frag, edits in T:
        if edits is None:
            continue
        ok = True
        for f, old, new in edits:
            p = os.path.join(R, f)
            s = open(p).read()
            if old not in s:
                print("SKIP", name, "anchor text not found in", f); ok = False; break
            open(p, "w").write(s.replace(old, new, 1))
        if ok:
            d = subprocess.check_output(["git", "-C", R, "diff"], text=True)
            open("/verif/selftest/%s.patch" % name, "w").write(d)
            idx.append({"name": name, "property": prop, "expect": frag})
        subprocess.check_call(["git", "-C", R, "checkout", "--", "."])
    json.dump(idx, open("/verif/selftest/index.json", "w"), indent=1)
    print(len(idx), "patches written")
main()
