#!/bin/sh
# runs every registered quick (or thorough) check and prints one line each
TIER=${1:-quick}
cd "$(dirname "$0")/.."
rc=0
for p in C01 C02 C03 C04 C05 C06 C07 C08 C09 C10 C11 C12 C13 C14 C15 C16 C17 C18 C19 C20; do
  out=$(./check $p --tier $TIER 2>&1); e=$?
  echo "$p exit=$e $(echo "$out" | grep -c '^KNOWN-FINDING') known | $(echo "$out" | tail -1 | cut -c1-120)"
  [ $e -ne 0 ] && rc=1
done
exit $rc
