#!/usr/bin/env python3
"""selftest.py [names...]: both-ways test of the checkers.  For each selftest/<name>.patch: apply to /repo, confirm the
crate still compiles and (with --tests) that the 226 baseline tests stay green, run the property's quick check, expect
exit 1 and a VIOLATION report containing the expected key fragment (entries marked "benign": the property still holds,
expect exit 0 and no report), undo the change.  Writes selftest/RESULTS.json."""
import json, os, subprocess, sys
V = "/verif"
args = [a for a in sys.argv[1:] if not a.startswith("--")]
with_tests = "--tests" in sys.argv
idx = json.load(open(V + "/selftest/index.json"))
res = json.load(open(V + "/selftest/RESULTS.json")) if (args and os.path.exists(V + "/selftest/RESULTS.json")) else {}
bad = 0
for e in idx:
    if args and e["name"] not in args:
        continue
    if subprocess.check_output(["git", "-C", "/repo", "status", "--porcelain"], text=True).strip():
        print("refusing: /repo is dirty"); sys.exit(2)
    if subprocess.call(["git", "-C", "/repo", "apply", "%s/selftest/%s.patch" % (V, e["name"])]) != 0:
        print(e["name"], "PATCH DOES NOT APPLY"); bad += 1; continue
    try:
        tests = None
        if with_tests:
            env = dict(os.environ, CARGO_TARGET_DIR="/tmp/selftest-target")
            out = subprocess.run(["cargo", "test", "--offline", "--manifest-path", "/repo/Cargo.toml"], env=env, stdout=subprocess.PIPE, stderr=subprocess.STDOUT, text=True).stdout
            tests = [l for l in out.splitlines() if "test result" in l][-1:] or ["BUILD FAILED"]
        p = subprocess.run([V + "/check", e["property"], "--tier", "quick"], stdout=subprocess.PIPE, stderr=subprocess.STDOUT, text=True, cwd=V)
        lines = [l for l in p.stdout.splitlines() if l.startswith("  ")]
        if e.get("benign"):
            # behaviour-preserving (or property-preserving) variant: the check must stay silent
            hit = p.returncode == 0 and "VIOLATION" not in p.stdout
        else:
            hit = p.returncode == 1 and any(e["expect"] in l for l in lines)
        res[e["name"] + "@" + e["property"]] = {"property": e["property"], "exit": p.returncode, "expected_fragment": e.get("expect"), "benign": bool(e.get("benign")), "caught": hit, "first_report": [l[:200] for l in lines[:2]], "baseline_tests": tests}
        print("%-28s %s exit=%d %s %s" % (e["name"], e["property"], p.returncode, ("SILENT-OK" if e.get("benign") else "CAUGHT") if hit else ("FALSE-ALARM" if e.get("benign") else "MISSED"), (tests or [""])[0][:60]))
        bad += 0 if hit else 1
    finally:
        subprocess.call(["git", "-C", "/repo", "checkout", "--", "."])
json.dump(res, open(V + "/selftest/RESULTS.json", "w"), indent=1)
print("missed:", bad)
sys.exit(1 if bad else 0)
