#!/usr/bin/env python3
"""prints the markdown table of DESIGN.md section 11 from seeded/RESULTS.json and the meta files"""
import json, os
V = "/verif"
r = json.load(open(V + "/seeded/RESULTS.json"))
print("| change | property | what it does (sub-agent's summary, shortened) | flagged by | first report of the target check |")
print("|---|---|---|---|---|")
for n in sorted(r):
    m = json.load(open("%s/seeded/%s/meta.json" % (V, n)))
    summ = " ".join(m.get("summary", "").split())[:230].replace("|", "/")
    t = r[n]["property"]
    rep = ""
    fr = r[n]["first_report"].get(t) or []
    if len(fr) > 1:
        rep = fr[1].strip().split(" :: ")[0].replace("|", "/")[:70]
    print("| `%s` | %s | %s | %s | `%s` |" % (n, t, summ, ", ".join(r[n]["flagged_by"]) + (" (undecided: %s)" % ", ".join(r[n]["checker_errors"]) if r[n]["checker_errors"] else ""), rep))
