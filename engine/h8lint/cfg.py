"""CFG / call-graph / def-use utilities over the MIR facts (structural rules)."""


class Cfg:
    def __init__(self, body):
        self.body = body
        self.blocks = body["blocks"]
        n = len(self.blocks)
        self.n = n
        self.EXIT = n
        self.succ = [[] for _ in range(n + 1)]
        self.pred = [[] for _ in range(n + 1)]
        self.live = [not b["cleanup"] for b in self.blocks]
        for i, b in enumerate(self.blocks):
            if b["cleanup"]:
                continue
            t = b["term"]
            k = t["k"]
            if k in ("goto", "drop", "assert"):
                s = [t["target"]]
            elif k == "switch":
                s = sorted(set([bb for _, bb in t["targets"]] + [t["otherwise"]]))
            elif k == "call":
                s = [t["target"]] if t["target"] is not None else [self.EXIT]
            else:
                s = [self.EXIT]
            self.succ[i] = s
            for x in s:
                self.pred[x].append(i)
        self._dom = None
        self._pdom = None
        # blocks reachable from entry
        self.reachable = self.reach_from(0)

    def reach_from(self, start, avoid=()):
        avoid = set(avoid)
        seen = set()
        stack = [start]
        while stack:
            x = stack.pop()
            if x in seen or x in avoid:
                continue
            seen.add(x)
            for s in self.succ[x]:
                stack.append(s)
        return seen

    def reaches(self, a, b, avoid=()):
        """is there a path a ->+ b (at least one edge) avoiding the given blocks"""
        seen = set()
        stack = list(self.succ[a])
        avoid = set(avoid)
        while stack:
            x = stack.pop()
            if x in seen or x in avoid:
                continue
            if x == b:
                return True
            seen.add(x)
            stack.extend(self.succ[x])
        return False

    def _domsets(self, succ, pred, root, nodes):
        full = set(nodes)
        dom = {x: set(full) for x in nodes}
        dom[root] = {root}
        changed = True
        while changed:
            changed = False
            for x in nodes:
                if x == root:
                    continue
                ps = [p for p in pred[x] if p in dom]
                if not ps:
                    continue
                new = set.intersection(*[dom[p] for p in ps]) | {x}
                if new != dom[x]:
                    dom[x] = new
                    changed = True
        return dom

    def dom(self):
        if self._dom is None:
            nodes = sorted(self.reachable)
            self._dom = self._domsets(self.succ, self.pred, 0, nodes)
        return self._dom

    def pdom(self):
        if self._pdom is None:
            nodes = sorted(self.reachable | {self.EXIT})
            self._pdom = self._domsets(self.pred, self.succ, self.EXIT, nodes)
        return self._pdom

    def dominates(self, a, b):
        return a in self.dom().get(b, ())

    def postdominates(self, a, b):
        return a in self.pdom().get(b, ())

    def back_edges(self):
        out = []
        for a in self.reachable:
            if a == self.EXIT:
                continue
            for h in self.succ[a]:
                if h != self.EXIT and self.dominates(h, a):
                    out.append((a, h))
        return out

    def loops(self):
        """header -> set of blocks of the natural loop (union over back edges)"""
        res = {}
        for a, h in self.back_edges():
            body = {h}
            stack = [a]
            while stack:
                x = stack.pop()
                if x in body:
                    continue
                body.add(x)
                stack.extend(p for p in self.pred[x] if p in self.reachable)
            res.setdefault(h, set()).update(body)
        return res

    def calls(self, pred=None):
        out = []
        for i in sorted(self.reachable):
            if i == self.EXIT:
                continue
            t = self.blocks[i]["term"]
            if t["k"] == "call":
                p = t["callee"]["path"] or ""
                if pred is None or pred(p, t):
                    out.append((i, p, t))
        return out

    def find_call(self, suffix):
        return [(i, p, t) for i, p, t in self.calls() if p == suffix or p.endswith("::" + suffix) or p.endswith(suffix)]

    # ---------------------------------------------------------------- def-use
    def defs(self):
        """local -> list of (block, kind, payload): kind 'st' (statement) or 'call'"""
        d = {}
        for i in sorted(self.reachable):
            if i == self.EXIT:
                continue
            b = self.blocks[i]
            for s in b["st"]:
                if s["k"] == "assign" and not s["p"]["p"]:
                    d.setdefault(s["p"]["l"], []).append((i, "st", s))
            t = b["term"]
            if t["k"] == "call" and not t["dest"]["p"]:
                d.setdefault(t["dest"]["l"], []).append((i, "call", t))
        return d

    def roots(self, operand_or_local, defs=None, depth=12):
        """places / constants / calls a value is copied from through Use and Cast only.
        returns a set of ('place', str) | ('const', value) | ('call', path, block) | ('expr', op, block)"""
        defs = defs or self.defs()
        out = set()

        def place_str(p):
            s = "_%d" % p["l"]
            for pr in p["p"]:
                k = pr["k"]
                if k == "deref":
                    s = "(*%s)" % s
                elif k == "field":
                    s += "." + str(pr["n"])
                elif k == "downcast":
                    s += "@" + pr["n"]
                elif k == "index":
                    s += "[_]"
                else:
                    s += "<%s>" % k
            return s

        def from_operand(o, dep):
            if o["k"] == "const":
                v = o["v"]
                out.add(("const", v.get("int", v.get("str", v.get("vname", str(v))))))
                return
            if o["k"] not in ("copy", "move"):
                return
            p = o["p"]
            if p["p"]:
                # a projection of a local: follow the local when it only holds a copy
                out.add(("place", place_str(p)))
                return
            from_local(p["l"], dep)

        def from_local(l, dep):
            if dep <= 0:
                out.add(("place", "_%d" % l))
                return
            ds = defs.get(l)
            if not ds:
                out.add(("place", "_%d" % l))
                return
            for blk, kind, payload in ds:
                if kind == "call":
                    out.add(("call", payload["callee"]["path"], blk))
                    continue
                r = payload["r"]
                if r["k"] == "use":
                    from_operand(r["o"], dep - 1)
                elif r["k"] == "cast":
                    from_operand(r["o"], dep - 1)
                elif r["k"] in ("ref", "rawptr") and all(pr["k"] == "deref" for pr in r["p"]["p"]):
                    # &(*_x) / &_x : the value behind the reference
                    from_local(r["p"]["l"], dep - 1)
                else:
                    out.add(("expr", r["k"] + ":" + str(r.get("op", "")), blk, l))
        if isinstance(operand_or_local, int):
            from_local(operand_or_local, depth)
        else:
            from_operand(operand_or_local, depth)
        return out


def place_str(p):
    s = "_%d" % p["l"]
    for pr in p["p"]:
        k = pr["k"]
        if k == "deref":
            s = "(*%s)" % s
        elif k == "field":
            s += "." + str(pr["n"])
        elif k == "downcast":
            s += "@" + pr["n"]
        elif k == "index":
            s += "[_]"
        else:
            s += "<%s>" % k
    return s


class CallGraph:
    def __init__(self, facts):
        self.f = facts
        self.edges = {}
        for key, b in facts.bodies.items():
            outs = set()
            for bl in b["blocks"]:
                t = bl["term"]
                if t["k"] == "call":
                    c = t["callee"]
                    p = c["path"]
                    if c.get("self_closure") and c["self_closure"] in facts.bodies:
                        outs.add(c["self_closure"])
                    if p:
                        outs.add(p)
                # closures constructed here may be called by library code (with_context, map, spawn ...)
                for s in bl["st"]:
                    if s["k"] == "assign" and s["r"]["k"] == "agg" and s["r"].get("ak") == "closure":
                        outs.add(s["r"]["path"])
                    # a function item used as a VALUE (stored in a function pointer, passed to a combinator): it may be called from here
                    if s["k"] == "assign":
                        r_ = s["r"]
                        for o_ in [r_.get("o"), r_.get("a"), r_.get("b")] + list(r_.get("ops") or []):
                            if isinstance(o_, dict) and o_.get("k") == "const" and isinstance(o_.get("v"), dict) and "fn" in o_["v"]:
                                fnp = o_["v"]["fn"]
                                if fnp in facts.bodies:
                                    outs.add(fnp)
                if t["k"] == "call":
                    for a_ in t["args"]:
                        if a_.get("k") == "const" and isinstance(a_.get("v"), dict) and "fn" in a_["v"] and a_["v"]["fn"] in facts.bodies:
                            outs.add(a_["v"]["fn"])
            self.edges[key] = outs

    def reachable(self, root, stop=()):
        seen = set()
        stack = [root]
        stop = set(stop)
        while stack:
            x = stack.pop()
            if x in seen or x in stop:
                continue
            seen.add(x)
            for y in self.edges.get(x, ()):
                stack.append(y)
        return seen

    def callers(self, target):
        return sorted(k for k, v in self.edges.items() if target in v)

    def path(self, root, target):
        prev = {root: None}
        queue = [root]
        while queue:
            x = queue.pop(0)
            if x == target:
                out = []
                while x is not None:
                    out.append(x)
                    x = prev[x]
                return list(reversed(out))
            for y in self.edges.get(x, ()):
                if y not in prev:
                    prev[y] = x
                    queue.append(y)
        return None
