"""Reduced ordered BDDs (canonical boolean functions) - the bit-level abstract domain.

Nodes are small integers; 0 = FALSE, 1 = TRUE.  Variables are integer ranks
(smaller rank = closer to the root).  Pure Python, no dependencies.
"""
import sys

sys.setrecursionlimit(20000)

FALSE = 0
TRUE = 1


class BddBudget(Exception):
    """raised when an operation run under a node budget would exceed it"""


class BDD:
    def __init__(self):
        self.var = [1 << 60, 1 << 60]
        self.lo = [0, 1]
        self.hi = [0, 1]
        self.unique = {}
        self._and = {}
        self._xor = {}
        self._not = {}
        self._ite = {}
        self.limit = None     # node budget (see budget())
        self.names = {}       # rank -> name
        self.rank_of = {}     # name -> rank

    # ------------------------------------------------------------------ nodes
    def mk(self, v, lo, hi):
        if lo == hi:
            return lo
        key = (v, lo, hi)
        n = self.unique.get(key)
        if n is None:
            n = len(self.var)
            if self.limit is not None and n > self.limit:
                raise BddBudget()
            self.var.append(v)
            self.lo.append(lo)
            self.hi.append(hi)
            self.unique[key] = n
        return n

    def newvar(self, rank, name):
        if rank in self.names and self.names[rank] != name:
            raise ValueError("rank clash %r %r %r" % (rank, name, self.names[rank]))
        self.names[rank] = name
        self.rank_of[name] = rank
        return self.mk(rank, 0, 1)

    # -------------------------------------------------------------- operators
    def NOT(self, a):
        if a < 2:
            return 1 - a
        r = self._not.get(a)
        if r is None:
            r = self.mk(self.var[a], self.NOT(self.lo[a]), self.NOT(self.hi[a]))
            self._not[a] = r
            self._not[r] = a
        return r

    def AND(self, a, b):
        if a == b:
            return a
        if a == 0 or b == 0:
            return 0
        if a == 1:
            return b
        if b == 1:
            return a
        if a > b:
            a, b = b, a
        key = (a, b)
        r = self._and.get(key)
        if r is not None:
            return r
        va = self.var[a]
        vb = self.var[b]
        if va == vb:
            r = self.mk(va, self.AND(self.lo[a], self.lo[b]), self.AND(self.hi[a], self.hi[b]))
        elif va < vb:
            r = self.mk(va, self.AND(self.lo[a], b), self.AND(self.hi[a], b))
        else:
            r = self.mk(vb, self.AND(a, self.lo[b]), self.AND(a, self.hi[b]))
        self._and[key] = r
        return r

    def OR(self, a, b):
        return self.NOT(self.AND(self.NOT(a), self.NOT(b)))

    def XOR(self, a, b):
        if a == b:
            return 0
        if a == 0:
            return b
        if b == 0:
            return a
        if a == 1:
            return self.NOT(b)
        if b == 1:
            return self.NOT(a)
        if a > b:
            a, b = b, a
        key = (a, b)
        r = self._xor.get(key)
        if r is not None:
            return r
        va = self.var[a]
        vb = self.var[b]
        if va == vb:
            r = self.mk(va, self.XOR(self.lo[a], self.lo[b]), self.XOR(self.hi[a], self.hi[b]))
        elif va < vb:
            r = self.mk(va, self.XOR(self.lo[a], b), self.XOR(self.hi[a], b))
        else:
            r = self.mk(vb, self.XOR(a, self.lo[b]), self.XOR(a, self.hi[b]))
        self._xor[key] = r
        return r

    def ITE(self, c, t, e):
        if c == 1:
            return t
        if c == 0:
            return e
        if t == e:
            return t
        if t == 1 and e == 0:
            return c
        if t == 0 and e == 1:
            return self.NOT(c)
        key = (c, t, e)
        r = self._ite.get(key)
        if r is not None:
            return r
        v = min(self.var[c], self.var[t], self.var[e])
        c0, c1 = (self.lo[c], self.hi[c]) if self.var[c] == v else (c, c)
        t0, t1 = (self.lo[t], self.hi[t]) if self.var[t] == v else (t, t)
        e0, e1 = (self.lo[e], self.hi[e]) if self.var[e] == v else (e, e)
        r = self.mk(v, self.ITE(c0, t0, e0), self.ITE(c1, t1, e1))
        self._ite[key] = r
        return r

    def restrict_care(self, f, c, memo=None):
        """Coudert-Madre restrict: a function that agrees with f wherever c holds and
        is (heuristically) smaller; never introduces variables outside f's support."""
        if memo is None:
            memo = {}
        if c == 1 or f < 2:
            return f
        if c == 0:
            return 0
        if f == c:
            return 1
        key = (f, c)
        r = memo.get(key)
        if r is not None:
            return r
        vf = self.var[f]
        vc = self.var[c]
        if vc < vf:
            r = self.restrict_care(f, self.OR(self.lo[c], self.hi[c]), memo)
        else:
            f0, f1 = self.lo[f], self.hi[f]
            if vc == vf:
                c0, c1 = self.lo[c], self.hi[c]
            else:
                c0 = c1 = c
            if c0 == 0:
                r = self.restrict_care(f1, c1, memo)
            elif c1 == 0:
                r = self.restrict_care(f0, c0, memo)
            else:
                r = self.mk(vf, self.restrict_care(f0, c0, memo), self.restrict_care(f1, c1, memo))
        memo[key] = r
        return r

    def IMPLIES(self, a, b):
        """True iff a -> b is a tautology."""
        return self.AND(a, self.NOT(b)) == 0

    def and_all(self, xs):
        r = 1
        for x in xs:
            r = self.AND(r, x)
            if r == 0:
                break
        return r

    def or_all(self, xs):
        r = 0
        for x in xs:
            r = self.OR(r, x)
            if r == 1:
                break
        return r

    # ---------------------------------------------------------------- queries
    def support(self, a, acc=None, seen=None):
        if acc is None:
            acc = set()
            seen = set()
        stack = [a]
        while stack:
            n = stack.pop()
            if n < 2 or n in seen:
                continue
            seen.add(n)
            acc.add(self.var[n])
            stack.append(self.lo[n])
            stack.append(self.hi[n])
        return acc

    def support_names(self, a):
        return sorted(self.names.get(v, str(v)) for v in self.support(a))

    def restrict(self, a, assign, memo=None):
        """Cofactor: assign is {rank: 0/1}."""
        if memo is None:
            memo = {}
        if a < 2:
            return a
        r = memo.get(a)
        if r is not None:
            return r
        v = self.var[a]
        if v in assign:
            r = self.restrict(self.hi[a] if assign[v] else self.lo[a], assign, memo)
        else:
            r = self.mk(v, self.restrict(self.lo[a], assign, memo), self.restrict(self.hi[a], assign, memo))
        memo[a] = r
        return r

    def compose(self, a, subst, memo=None):
        """Substitute variables by functions: subst is {rank: node}."""
        if memo is None:
            memo = {}
        if a < 2:
            return a
        r = memo.get(a)
        if r is not None:
            return r
        v = self.var[a]
        lo = self.compose(self.lo[a], subst, memo)
        hi = self.compose(self.hi[a], subst, memo)
        g = subst.get(v)
        if g is None:
            g = self.mk(v, 0, 1)
        r = self.ITE(g, hi, lo)
        memo[a] = r
        return r

    def exists(self, a, ranks, memo=None):
        if memo is None:
            memo = {}
        if a < 2:
            return a
        r = memo.get(a)
        if r is not None:
            return r
        v = self.var[a]
        lo = self.exists(self.lo[a], ranks, memo)
        hi = self.exists(self.hi[a], ranks, memo)
        if v in ranks:
            r = self.OR(lo, hi)
        else:
            r = self.mk(v, lo, hi)
        memo[a] = r
        return r

    def sat_one(self, a):
        """One satisfying assignment {rank: 0/1} (only variables on the path)."""
        if a == 0:
            return None
        out = {}
        n = a
        while n > 1:
            if self.lo[n] != 0:
                out[self.var[n]] = 0
                n = self.lo[n]
            else:
                out[self.var[n]] = 1
                n = self.hi[n]
        return out

    def sat_count(self, a, ranks):
        """Number of assignments over the given ordered list of ranks."""
        ranks = sorted(ranks)
        pos = {r: i for i, r in enumerate(ranks)}
        n = len(ranks)
        memo = {}

        def rec(x, level):
            # count over ranks[level:]
            if x == 0:
                return 0
            if x == 1:
                return 1 << (n - level)
            key = (x, level)
            r = memo.get(key)
            if r is not None:
                return r
            p = pos[self.var[x]]
            r = (rec(self.lo[x], p + 1) + rec(self.hi[x], p + 1)) << (p - level)
            memo[key] = r
            return r

        return rec(a, 0)

    def size(self, a):
        seen = set()
        stack = [a]
        while stack:
            n = stack.pop()
            if n < 2 or n in seen:
                continue
            seen.add(n)
            stack.append(self.lo[n])
            stack.append(self.hi[n])
        return len(seen)

    def eval(self, a, env):
        """env: {rank: 0/1}; missing -> 0."""
        n = a
        while n > 1:
            n = self.hi[n] if env.get(self.var[n], 0) else self.lo[n]
        return n

    def describe_assign(self, assign):
        return {self.names.get(r, str(r)): v for r, v in sorted(assign.items())}

    def to_expr(self, a, limit=400):
        """Human readable sum-of-cubes (truncated)."""
        if a == 0:
            return "0"
        if a == 1:
            return "1"
        cubes = []

        def rec(n, cur):
            if len(cubes) > 8:
                return
            if n == 0:
                return
            if n == 1:
                cubes.append("&".join(cur) if cur else "1")
                return
            nm = self.names.get(self.var[n], str(self.var[n]))
            rec(self.lo[n], cur + ["!" + nm])
            rec(self.hi[n], cur + [nm])

        rec(a, [])
        s = " | ".join(cubes[:8])
        if len(cubes) > 8:
            s += " | ..."
        return s[:limit]
