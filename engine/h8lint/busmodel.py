"""Symbolic model of the Bus object (backing arrays as read-over-write array abstractions)
shared by the bus, I/O-port and timer rules."""
import bv
import models
from interp import Agg, Enum, Int, Interp, Opaque, Ref, SymArr, UNIT, make_box

BUS_ROOT = ("h", "bus")


def bus_lengths(facts):
    """lengths of the backing stores: Box<[u8]> fields from the vec![0; N] in Bus::new
    (def-use on single-assignment locals), Box<[u8; N]> / [u8; N] fields from their types"""
    fields = facts.struct_fields("bus::Bus")
    bus_t = facts.types[facts.type_by_path["bus::Bus"]]
    ftypes = {f["n"]: facts.types[f["ty"]] for f in bus_t["variants"][0]["fields"]}
    lens = {}
    for n, t in ftypes.items():
        if t["k"] == "array":
            lens[n] = t["len"]
        elif t["k"] == "adt" and t.get("box"):
            inner = facts.types[t["args"][0]] if t["args"] else None
            if inner and inner["k"] == "array":
                lens[n] = inner["len"]
    body = facts.body("bus::Bus::new")
    origin = {}
    agg = None
    for bl in body["blocks"]:
        if bl["cleanup"]:
            continue
        for s in bl["st"]:
            if s["k"] == "assign" and s["r"]["k"] == "agg" and s["r"].get("path") == "bus::Bus":
                agg = s["r"]
        t = bl["term"]
        if t["k"] == "call":
            p = t["callee"]["path"] or ""
            d = t["dest"]["l"]
            if p.endswith("vec::from_elem") and t["args"][1]["k"] == "const":
                origin[d] = int(t["args"][1]["v"]["int"])
            elif p.endswith("into_boxed_slice") and t["args"][0]["k"] in ("move", "copy"):
                src = t["args"][0]["p"]["l"]
                if src in origin:
                    origin[d] = origin[src]
    if agg is None:
        raise KeyError("Bus::new aggregate not found")
    for name, o in zip(agg["fnames"], agg["ops"]):
        if o["k"] in ("move", "copy") and o["p"]["l"] in origin:
            lens[name] = origin[o["p"]["l"]]
    return fields, lens


class BusModel:
    def __init__(self, facts):
        self.f = facts
        self.fields, self.lens = bus_lengths(facts)
        self.fi = {n: i for i, n in enumerate(self.fields)}
        self.stores = [n for n in self.fields if n in self.lens]

    def fresh(self, mem):
        """adds a symbolic Bus to the memory dict; returns the reference to it"""
        vals = []
        for n in self.fields:
            if n in self.lens:
                ft = self.f.types[[f for f in self.f.types[self.f.type_by_path["bus::Bus"]]["variants"][0]["fields"] if f["n"] == n][0]["ty"]]
                arr = SymArr(n, self.lens[n], 8)
                if ft["k"] == "array":
                    vals.append(arr)
                else:
                    mem[("h", n)] = arr
                    vals.append(make_box(Ref(("h", n), ())))
            elif n == "cpu_state_sum":
                vals.append(Int(bv.data_bv("css", 64)))
            else:
                vals.append(Opaque("bus." + n))
        mem[BUS_ROOT] = Agg(vals)
        return Ref(BUS_ROOT, ())

    def store_of(self, st, name):
        v = st.mem[BUS_ROOT].fields[self.fi[name]]
        if isinstance(v, SymArr):
            return v
        return st.mem[("h", name)]


def module_models(ip, effects=True):
    """models for the Weak<RefCell<ModuleManager>> plumbing in Bus::write"""
    def m_upgrade(ip_, st, fr, t, args):
        return Enum(models.SOME, [Opaque("rc")])

    def m_op(tag):
        def f(ip_, st, fr, t, args):
            return ip_.opaque_of_type(t["dest"]["ty"], tag)
        return f
    ip.models["std::rc::Weak::<T, A>::upgrade"] = m_upgrade
    ip.models["std::rc::Weak::<T>::upgrade"] = m_upgrade
    pats = getattr(ip, "pattern_models", [])
    pats.append((lambda p, f: p.endswith("::deref") or p.endswith("::deref_mut") or "RefCell" in p and p.endswith("borrow_mut"), m_op("deref")))
    ip.pattern_models = pats
