"""C14 - MES system calls (TRAPA #0).

Cpu::trapa is analysed for the opcode H'5700 with the MES gate inlined (bus accesses are
effects, the byte buffer is an abstract sequence, strings are terms).
(1) dispatch on ER0: 104 -> write, 113 -> set_handler, anything else -> error;
(2) write: the argument words are read big-endian at ER1+0/4/8; the copy loop is analysed
    once with a generalised index i (invariant: the vector holds the bytes at buffer+0..i-1
    in order): it reads exactly one byte at buffer+i, appends exactly that byte, advances
    i by one and is left exactly when i == length; base case i = 0, empty vector; the text
    built from the vector is printed once and sent once as the stdout message (same
    term), outside the loop; no register, CCR bit, PC or memory byte is written;
(3) set_handler: for 1 <= v <= 63 the word addr + H'5A000000 is stored big-endian at 4*v -
    the address Cpu::interrupt reads (C06) - so the low 24 bits recover addr; any other v
    stores nothing; registers/CCR/PC unchanged."""
import bv
import cfg as cfgmod
import isa as isamod
import isacheck
import models
import strmodel
from interp import Agg, Enum, Int, Interp, Opaque, Ref, SymArr, UNIT
from rules import c13


def witness(c):
    a = bv.M.sat_one(c)
    return isacheck.group_witness(bv.M.describe_assign(a)) if a is not None else None


def differs(a, b, care):
    Mx = bv.M
    if len(a) != len(b):
        return care
    for x, y in zip(a, b):
        if x != y:
            d = Mx.AND(Mx.XOR(x, y), care)
            if d != 0:
                return d
    return 0


def be32(reads):
    """4 consecutive read effects -> 32-bit value (big-endian)"""
    return reads[3][2] + reads[2][2] + reads[1][2] + reads[0][2]


DECODERS = ("from_utf8", "from_utf8_lossy", "from_utf8_unchecked", "utf8_chunks", "from_utf16")


def partial_decode(res, body, g, loops):
    """UTF-8 validation applied inside the byte-copy loop validates a PART of the buffer: a multi-byte
    character that straddles the part boundary makes a valid text fail.  Decided structurally: a decoder
    call in the loop whose Err is propagated unconditionally (`?`) is a violation; a decoder call in the
    loop whose result is handled otherwise cannot be decided here (checker error)."""
    blocks_all = body["blocks"]

    def locals_in(x, acc):
        if isinstance(x, dict):
            if "l" in x and isinstance(x["l"], int):
                acc.add(x["l"])
            for v in x.values():
                locals_in(v, acc)
        elif isinstance(x, list):
            for v in x:
                locals_in(v, acc)
        return acc
    for h, blocks in loops.items():
        calls = [(b, blocks_all[b]["term"]) for b in sorted(blocks) if blocks_all[b]["term"]["k"] == "call"]
        rd = [(b, t) for b, t in calls if "read_abs" in (t["callee"]["path"] or "") or (t["callee"]["path"] or "").endswith("Bus::read")]
        if not rd:
            continue
        # does the loop branch on the VALUE of a byte read (then part boundaries may be character boundaries)?
        taint = set(t["dest"]["l"] for b, t in rd)
        flag_locals = set()     # discriminants of the `?` on the read itself
        changed = True
        while changed:
            changed = False
            for b in blocks:
                for st_ in blocks_all[b]["st"]:
                    if st_["k"] == "assign" and locals_in(st_["r"], set()) & taint:
                        if st_["r"]["k"] == "discr":
                            flag_locals.add(st_["p"]["l"])
                        elif st_["p"]["l"] not in taint:
                            taint.add(st_["p"]["l"])
                            changed = True
                t = blocks_all[b]["term"]
                if t["k"] == "call" and locals_in(t["args"], set()) & taint and t["dest"]["l"] not in taint:
                    taint.add(t["dest"]["l"])
                    changed = True
        value_dependent = False
        for b in blocks:
            t = blocks_all[b]["term"]
            if t["k"] == "switch" and (locals_in(t["o"], set()) - flag_locals) & taint:
                value_dependent = True
        for b, t in calls:
            path = t["callee"]["path"] or ""
            if not any(path.split("::")[-1] == d for d in DECODERS):
                continue
            propagated = False
            for b2, t2 in calls:
                p2 = t2["callee"]["path"] or ""
                if p2.endswith("Try>::branch") and t2["args"]:
                    for r in g.roots(t2["args"][0]):
                        if r[0] == "call" and r[1] == path and r[2] == b:
                            propagated = True
            res.ob(not propagated)
            if propagated and not value_dependent:
                res.finding("write|partial-utf8-validation", "UTF-8 validation (%s, line %s) is applied to a part of the buffer inside the copy loop and its error is propagated: "
                            "a multi-byte character straddling the part boundary makes a valid text fail and nothing is emitted" % (path.split("::")[-1], t["ln"]))
            else:
                res.errors.append("a UTF-8 decoder (%s, line %s) is applied inside the copy loop with data-dependent part boundaries or with its own error handling: not decidable by this rule" % (path, t["ln"]))


def bulk_accessors(facts, res, k_mes):
    """The gate may fetch the buffer through a bulk accessor of the Bus instead of one Bus::read per byte.  Necessary condition for
    'exactly the length bytes at buffer are emitted ... execution continues': such an accessor must ACCEPT every range that the
    per-byte reads accept - (addr, len >= 1) with addr .. addr+len-1 inside one region of the map.  Decided for all 2^64 (addr, len):
    the accessor is interpreted over a symbolic address and length; an Err path whose condition meets the set of valid ranges is a finding."""
    from rules import c09
    import cfg as cfgmod_
    cg = cfgmod_.CallGraph(facts)
    k_read = facts.body("bus::Bus::read")["key"]
    k_write = facts.body("bus::Bus::write")["key"]
    cands = []
    for k in sorted(cg.reachable(k_mes)):
        b = facts.bodies.get(k)
        if b is None or k in (k_read, k_write) or not ("impl bus::Bus" in k or k.startswith("bus::Bus::")):
            continue
        if b.get("argc") != 3:
            continue
        tys = [facts.types[b["locals"][i]["ty"]] for i in (2, 3)]
        if all(t_.get("k") == "int" and t_.get("bits") in (32, 64) for t_ in tys) and "Result" in (facts.types[b["locals"][0]["ty"]].get("path") or ""):
            cands.append(k)
    res.inventory["bulk_bus_accessors_used_by_the_gate"] = [k.split("::")[-1] for k in cands]
    for k in cands:
        bm, ip = c09.make(facts)
        Mx = bv.M
        b = facts.bodies[k]
        wa = facts.types[b["locals"][2]["ty"]]["bits"]
        wl = facts.types[b["locals"][3]["ty"]]["bits"]
        addr = bv.seq_bv("ra", wa)
        ln = bv.seq_bv("rl", wl)
        mem = {}
        busref = bm.fresh(mem)

        def m_slice_index(ip_, st, fr, t, args):
            return [(None, Opaque("subslice"))]
        ip.pattern_models.insert(0, (lambda p, f: ("ops::Index<" in (p or "") or "ops::Index<" in (f or "")) and ("Range" in (f or "") + (p or "")) and "RangeFull" not in (f or "") + (p or ""), m_slice_index))
        outs = ip.run_all(k, [busref, Int(addr), Int(ln)], mem)
        a64 = bv.zext(addr, 64)
        l64 = bv.zext(ln, 64)
        last = bv.sub(bv.add(a64, l64), bv.const(1, 64))
        valid = 0
        for name, lo, hi in c09.REGIONS:
            valid = Mx.OR(valid, Mx.AND(Mx.AND(bv.ule(bv.const(lo, 64), a64), bv.ule(a64, bv.const(hi, 64))), bv.ule(last, bv.const(hi, 64))))
        valid = Mx.AND(valid, Mx.NOT(bv.is_zero(ln)))
        nerr = 0
        for o in outs:
            st = o.state
            if any(t_ in st.tags for t_ in ("opaque-switch", "opaque-assert", "unknown-callee", "unwrap-opaque")):
                if Mx.AND(st.pc, valid) != 0 and not (o.kind == "return" and isinstance(o.value, Enum) and o.value.variant == models.OK):
                    res.errors.append("bulk accessor %s: a path that may reject a valid range is not followed precisely (%r): not decidable" % (k.split("::")[-1], st.tags))
                continue
            if o.kind == "return" and isinstance(o.value, Enum) and o.value.variant == models.ERR:
                nerr += 1
                bad = Mx.AND(st.pc, valid)
                res.ob(bad == 0)
                if bad != 0:
                    a_ = Mx.sat_one(bad) or {}
                    va = sum((1 << i) for i, b_ in enumerate(addr) if b_ > 1 and a_.get(Mx.var[b_], 0))
                    vl = sum((1 << i) for i, b_ in enumerate(ln) if b_ > 1 and a_.get(Mx.var[b_], 0))
                    res.finding("write|bulk-read|rejects-valid-range|%s" % k.split("::")[-1], "the gate fetches the buffer through Bus::%s, which returns an error for a range that lies entirely inside "
                                "mapped memory (every single Bus::read of it succeeds): the text is not emitted and execution stops" % k.split("::")[-1],
                                {"buffer": "0x%x" % va, "length": vl, "last byte": "0x%x" % (va + vl - 1)})
        res.evaluations += len(outs)


def run(ctx, res):
    facts = ctx["facts"]
    res.explanation = __doc__.split("\n\n", 1)[1].replace("\n", " ")
    res.rule = "abstract interpretation of Cpu::trapa(H'5700) with the copy loop generalised at its header (inductive step + base case + exit), strings/byte vectors as terms"
    res.trusted = ["rustc MIR", "h8facts", "interp.py/models.py/strmodel.py", "bdd.py", "Range<u32>::next, Vec::push, String::from_utf8 (library semantics)"]
    res.assumptions = ["Bus::read/Bus::write are summarised as effects (C09); big-endian composition of the abs24 helpers is decided by C01/C08",
                       "String::from_utf8 yields the text of exactly the bytes of the vector (or an error for invalid UTF-8)"]
    res.not_decided = ["the console side of print!", "termination for a 4 GiB length", "byte-exactness as a run-time fact follows from the loop invariant by induction (stated)"]
    bv.reset()
    strmodel.reset()
    I = isamod.Isa(facts)
    ip = I.make_interp(with_mes_prim=False)
    c13.time_models(ip)
    strmodel.install(ip)
    k_trapa = [k for k in facts.find("trapa") if k.endswith("::trapa")]
    k_mes = facts.find("trapa_emulate_mes2")
    k_stdout = facts.find("send_stdout_message")
    if len(k_trapa) != 1 or len(k_mes) != 1 or len(k_stdout) != 1:
        res.errors.append("anchors: %r %r %r" % (k_trapa, k_mes, k_stdout))
        return
    body = facts.bodies[k_mes[0]]
    try:
        bulk_accessors(facts, res, k_mes[0])
    except Exception as e_:      # noqa
        res.errors.append("bulk accessor rule: %s" % str(e_)[:300])
    bv.reset()
    strmodel.reset()
    I = isamod.Isa(facts)
    ip = I.make_interp(with_mes_prim=False)
    c13.time_models(ip)
    strmodel.install(ip)
    g = cfgmod.Cfg(body)
    loops = g.loops()
    partial_decode(res, body, g, loops)
    # the copy loop, by role: the loop (in the gate or in a helper it calls) that reads guest bytes; none: the copy may be
    # written as an iterator collect (virtual loop, see m_collect)
    cgraph = cfgmod.CallGraph(facts)
    cands = []
    for bk in [k_mes[0]] + sorted(k_ for k_ in cgraph.reachable(k_mes[0]) if k_ in facts.bodies and k_ != k_mes[0]):
        if "addressing_mode" in bk or bk.startswith("bus::"):
            continue
        bb_ = facts.bodies[bk]
        for h_, blocks_ in cfgmod.Cfg(bb_).loops().items():
            if any(bb_["blocks"][x_]["term"]["k"] == "call" and ("read_abs" in (bb_["blocks"][x_]["term"]["callee"]["path"] or "") or
                                                               (bb_["blocks"][x_]["term"]["callee"]["path"] or "").endswith("Bus::read")) for x_ in blocks_):
                cands.append((bk, h_, blocks_))
    if len(cands) > 1:
        res.errors.append("the MES gate has %d loops that read guest bytes: the copy loop is not identified" % len(cands))
        return
    loop_body_key = cands[0][0] if cands else None
    header = cands[0][1] if cands else None
    loop_blocks = cands[0][2] if cands else ()
    if loop_body_key is not None and loop_body_key != k_mes[0]:
        partial_decode(res, facts.bodies[loop_body_key], cfgmod.Cfg(facts.bodies[loop_body_key]), cfgmod.Cfg(facts.bodies[loop_body_key]).loops())
    names = {l["n"]: i for i, l in enumerate(body["locals"]) if l["n"]}
    snap = {}

    # ---- models: ranges, byte vectors, printing
    def m_into_iter(ip_, st, fr, t, args):
        return args[0]

    def m_range_next(ip_, st, fr, t, args):
        r = args[0]
        rng = ip_.read_loc(st, r.root, r.path)
        start, end = rng.fields[0], rng.fields[1]
        c = bv.ult(start.bits, end.bits)

        def adv(s, r=r, start=start):
            ip_.write_loc(s, r.root, r.path + (0,), Int(bv.add(start.bits, bv.const(1, len(start.bits)))))
            s.add_eff(("iter", start.bits))
        return [(c, Enum(models.SOME, [start]), adv), (bv.M.NOT(c), Enum(models.NONE, []), lambda s: s.add_eff(("iter-done",)))]

    def m_vec_new(ip_, st, fr, t, args):
        return Opaque("bytevec", ("empty",))

    def m_vec_push(ip_, st, fr, t, args):
        r = args[0]
        v = ip_.read_loc(st, r.root, r.path)
        term = v.data if isinstance(v, Opaque) and v.tag == "bytevec" else ("?",)
        ip_.write_loc(st, r.root, r.path, Opaque("bytevec", ("push", term, args[1].bits if isinstance(args[1], Int) else None)))
        st.add_eff(("push",))
        return UNIT

    def m_from_utf8(ip_, st, fr, t, args):
        v = args[0]
        term = v.data if isinstance(v, Opaque) and v.tag == "bytevec" else ("?",)
        i = st.count("ctl")
        okv = bv.ctl_var("utf8", i)
        return [(okv, Enum(models.OK, [strmodel.S(("utf8", term))])), (bv.M.NOT(okv), Enum(models.ERR, [Opaque("utf8err")]), lambda s: s.tag("prim-failed"))]

    def m_new_display(ip_, st, fr, t, args):
        return Opaque("fmtarg", strmodel.term_of(ip_, st, args[0]))

    def m_arguments_new(ip_, st, fr, t, args):
        arr = args[1]
        if isinstance(arr, Ref):
            arr = ip_.read_loc(st, arr.root, arr.path)
        terms = tuple(a.data for a in arr.fields if isinstance(a, Opaque) and a.tag == "fmtarg") if isinstance(arr, Agg) else ()
        return Opaque("fmtargs", terms)

    def m_print(ip_, st, fr, t, args):
        a = args[0]
        st.add_eff(("print", a.data if isinstance(a, Opaque) and a.tag == "fmtargs" else None))
        return UNIT

    def p_stdout(ip_, st, fr, t, args):
        st.add_eff(("stdout", strmodel.term_of(ip_, st, args[1])))
        i = st.count("ctl")
        okv = bv.ctl_var("sent", i)
        return [(okv, Enum(models.OK, [UNIT])), (bv.M.NOT(okv), Enum(models.ERR, [Opaque("senderr")]), lambda s: s.tag("prim-failed"))]
    # ---- the copy written as (0..len).map(|i| read(buf + i)).collect::<Result<Vec<u8>>>(): analysed as the same virtual loop
    def m_map(ip_, st, fr, t, args):
        rng = args[0]
        try:
            cty = ip_.types[ip_.operand_ty(t["args"][1])]
        except Exception:
            cty = {}
        if not (isinstance(rng, Agg) and len(rng.fields) == 2 and all(isinstance(x, Int) and len(x.bits) == 32 for x in rng.fields)) or cty.get("k") != "closure" \
                or cty.get("path") not in ip_.f.bodies:
            return None
        return Opaque("mapiter", (rng, cty["path"], args[1]))

    def m_collect(ip_, st, fr, t, args):
        it = args[0]
        if not (isinstance(it, Opaque) and it.tag == "mapiter"):
            return None
        rng, ckey, clos = it.data
        rt = ip_.types[t["dest"]["ty"]]
        if not (rt.get("k") == "adt" and (rt.get("path") or "").endswith("result::Result")):
            return None
        start, end = rng.fields
        snap["base"] = (rng, Opaque("bytevec", ("empty",)), st.pc, st.eff)
        snap["roots"] = (None, None)
        snap["virtual"] = True
        pre_eff = st.eff
        cbody = ip_.f.bodies[ckey]
        envt = ip_.types[cbody["locals"][1]["ty"]]
        env = clos
        if envt["k"] == "ref" and not isinstance(clos, Ref):
            tmp = ("tmpenv", st.count("tmpenv"))
            st.mem[tmp] = clos
            env = Ref(tmp, ())
        inb = bv.ult(idx_var, end.bits)

        def pre_step(s):
            s.eff = pre_eff + (("loop-head",), ("iter", idx_var))

        def step_done(st2, ret):
            if isinstance(ret, Enum) and ret.variant == models.OK and ret.fields and isinstance(ret.fields[0], Int):
                byte = ret.fields[0].bits

                def fin(s, byte=byte):
                    s.add_eff(("push",))
                    s.add_eff(("back", bv.add(idx_var, bv.const(1, 32)), ("push", ("prefix", idx_var), byte)))
                return [("stop", None, fin)]
            if isinstance(ret, Enum) and ret.variant == models.ERR:
                return ret          # the first failing element ends the collection with that error
            st2.tag("unknown-callee")
            return ret

        def exit_hook(s):
            s.eff = pre_eff + (("loop-head",), ("iter-done",))
        return [("call", inb, ckey, [env, Int(idx_var)], step_done, pre_step),
                (Mx_NOT(inb), Enum(models.OK, [Opaque("bytevec", ("prefix", idx_var))]), exit_hook)]
    Mx_NOT = bv.M.NOT
    ip.models["std::iter::Iterator::map"] = m_map
    ip.models["std::iter::Iterator::collect"] = m_collect
    ip.models["<I as std::iter::IntoIterator>::into_iter"] = m_into_iter
    ip.models["std::iter::range::<impl std::iter::Iterator for std::ops::Range<A>>::next"] = m_range_next
    ip.models["std::vec::Vec::<T>::new"] = m_vec_new
    ip.models["std::vec::Vec::<T, A>::push"] = m_vec_push
    ip.models["std::string::String::from_utf8"] = m_from_utf8
    ip.models["core::fmt::rt::Argument::<'_>::new_display"] = m_new_display
    ip.models["std::fmt::Arguments::<'a>::new"] = m_arguments_new
    ip.models["std::io::_print"] = m_print
    ip.primitives[k_stdout[0]] = p_stdout
    idx_var = bv.data_bv("i", 32)
    induct = {}
    carried = set()
    lbody = facts.bodies[loop_body_key] if loop_body_key else body
    for b_ in loop_blocks:
        bl_ = lbody["blocks"][b_]
        for s_ in bl_["st"]:
            if s_["k"] == "assign" and not s_["p"]["p"]:
                carried.add(s_["p"]["l"])
            if s_["k"] == "assign" and s_["r"]["k"] == "ref" and s_["r"].get("mut") and not any(pr["k"] == "deref" for pr in s_["r"]["p"]["p"]):
                carried.add(s_["r"]["p"]["l"])
        t_ = bl_["term"]
        if t_["k"] == "call" and not t_["dest"]["p"]:
            carried.add(t_["dest"]["l"])

    def at_header(ip_, st, fr, n):
        # locate the range and the vector among the locals of the activation
        rng_root = vec_root = None
        for key, v in st.mem.items():
            if key[0] == "f" and key[1] == fr.fid:
                if isinstance(v, Agg) and len(v.fields) == 2 and all(isinstance(x, Int) and len(x.bits) == 32 for x in v.fields):
                    rng_root = key
                if isinstance(v, Opaque) and v.tag == "bytevec":
                    vec_root = key
        if rng_root is None or vec_root is None:
            snap["error"] = "range / vector not found at the loop header"
            return "stop"
        if n == 0:
            snap["base"] = (st.mem[rng_root], st.mem[vec_root], st.pc, st.eff)
            end = st.mem[rng_root].fields[1]
            st.mem[rng_root] = Agg([Int(idx_var), end])
            st.mem[vec_root] = Opaque("bytevec", ("prefix", idx_var))
            # every other integer local assigned (or mutably borrowed) inside the loop is loop-carried: arbitrary value
            for l_ in sorted(carried):
                key_ = ("f", fr.fid, l_)
                if key_ in (rng_root, vec_root):
                    continue
                cur_ = st.mem.get(key_)
                if isinstance(cur_, Int):
                    snap.setdefault("carried0", {})[l_] = cur_.bits
                    if l_ in induct:
                        # an induction variable (constant step per iteration, learnt in a first pass): x = x0 + step * i
                        st.mem[key_] = Int(bv.add(cur_.bits, bv.mul(bv.cast(idx_var, len(cur_.bits), False), bv.const(induct[l_] & ((1 << len(cur_.bits)) - 1), len(cur_.bits)))))
                    else:
                        st.mem[key_] = Int(bv.seq_bv("carried_%d" % l_, len(cur_.bits)))
            snap["roots"] = (rng_root, vec_root)
            st.add_eff(("loop-head",))
            return "continue"
        after_ = {}
        for l_ in sorted(carried):
            v_ = st.mem.get(("f", fr.fid, l_))
            if isinstance(v_, Int):
                after_[l_] = v_.bits
        st.add_eff(("back", st.mem[rng_root].fields[0].bits, st.mem[vec_root].data, after_))
        return "stop"
    if header is not None:
        ip.block_hooks[(loop_body_key, header)] = at_header
        ip.hooks_any_depth = True
    # the hook must fire inside a callee frame too
    orig_hooks = ip.block_hooks
    cpu = I.fresh_cpu()
    w0 = bv.const(0x5700, 16)
    # run trapa with the gate inlined; hooks only fire at depth 1, so analyse the gate directly and trapa around it
    outs = ip.run_all(k_mes[0], [Ref(isamod.CPU_ROOT, ())], {isamod.CPU_ROOT: cpu})
    # induction variables: a loop-carried integer whose value after an iteration is its value before plus a constant, on every
    # trace, is re-analysed as x0 + step * i instead of an arbitrary value (e.g. a running cursor next to the index)
    steps = {}
    for o_ in outs:
        for e_ in o_.state.eff:
            if e_[0] == "back" and len(e_) > 3:
                for l_, bits_ in e_[3].items():
                    var_ = bv.seq_bv("carried_%d" % l_, len(bits_))
                    # (canonical BDDs: x + c is recognised by node identity - no subtraction of unrelated vectors)
                    d_ = None
                    if tuple(bits_) == tuple(var_):
                        d_ = 0
                    else:
                        for c_ in (1, 2, 4, 8, -1, -2, -4, -8):
                            if tuple(bv.add(var_, bv.const(c_ & ((1 << len(bits_)) - 1), len(bits_)))) == tuple(bits_):
                                d_ = c_
                                break
                    steps.setdefault(l_, set()).add(d_)
    learnt = {l_: list(v_)[0] for l_, v_ in steps.items() if len(v_) == 1 and None not in v_ and list(v_)[0] != 0}
    if learnt and not induct:
        induct.update(learnt)
        snap.clear()
        cpu = I.fresh_cpu()
        outs = ip.run_all(k_mes[0], [Ref(isamod.CPU_ROOT, ())], {isamod.CPU_ROOT: cpu})
        res.inventory["induction_variables"] = {str(k_): v_ for k_, v_ in learnt.items()}
    if ip.unknown_callees:
        res.errors.append("unmodelled callees in the MES gate: %r" % ip.unknown_callees)
    if "error" in snap:
        res.errors.append(snap["error"])
        return
    Mx = bv.M
    er = SymArr("er", 8, 32)
    ER0 = ip.arr_read(er, bv.const(0, 3))
    ER1 = ip.arr_read(er, bv.const(1, 3))
    ER5 = ip.arr_read(er, bv.const(5, 3))
    is_write = bv.eq(ER0, bv.const(104, 32))
    is_set = bv.eq(ER0, bv.const(113, 32))
    seen = {"write-exit": 0, "write-step": 0, "set-store": 0, "set-ignore": 0, "other": 0}

    def unchanged(st, care, what):
        cpuv = st.mem[isamod.CPU_ROOT]
        okk = cpuv.fields[I.fi["ccr"]].bits == bv.ccr_bv() and cpuv.fields[I.fi["pc"]].bits == bv.data_bv("pc", 24) + (0,) * 8 and not cpuv.fields[I.fi["er"]].writes
        res.ob(okk)
        if not okk:
            res.finding("%s|state-changed" % what, "the %s call changes a register, CCR or PC" % what, witness(care))

    for o in outs:
        st = o.state
        if o.kind == "panic" and any(t in st.tags for t in ("opaque-switch", "opaque-assert", "unknown-callee", "unwrap-opaque")):
            res.errors.append("imprecise trace in the MES gate (panic branch): %r" % (st.tags,))
            continue
        care = st.pc
        if o.kind == "panic":
            res.ob(False)
            res.finding("gate|panic|%s" % o.info.get("kind"), "the MES gate can panic (%s, line %s)" % (o.info.get("kind"), o.info.get("line")), witness(care))
            continue
        if any(t in st.tags for t in ("opaque-switch", "opaque-assert", "unknown-callee")):
            res.errors.append("imprecise trace in the MES gate: %r" % (st.tags,))
            continue     # an imprecisely followed trace decides nothing
        if "prim-failed" in st.tags:
            # a failing bus access / invalid UTF-8 / send error: reported as an error, nothing written
            okk = (o.kind == "return" and isinstance(o.value, Enum) and o.value.variant == models.ERR) or o.kind == "stop"
            res.ob(okk)
            continue
        effs = list(st.eff)
        kinds = [e[0] for e in effs]
        reads = [e for e in effs if e[0] == "memread"]
        writes = [e for e in effs if e[0] == "memwrite"]
        res.evaluations += 1
        if Mx.AND(care, Mx.OR(is_write, is_set)) == 0:
            # (1) any other call number
            okk = o.kind == "return" and isinstance(o.value, Enum) and o.value.variant == models.ERR and not writes and not reads
            res.ob(okk)
            seen["other"] = 1
            if not okk:
                res.finding("dispatch|other-id", "a call number other than 104/113 does not stop with an error (or touches memory first)", witness(care))
            continue
        if Mx.AND(care, is_set) != 0:
            # (3) set_handler
            bad = Mx.AND(care, Mx.NOT(is_set))
            res.ob(bad == 0)
            if bad != 0:
                res.finding("dispatch|set_handler-for-other-id", "a call number other than 113 is executed as set_handler", witness(bad))
            unchanged(st, care, "set_handler")
            okk = len(reads) == 8 and o.kind == "return" and isinstance(o.value, Enum) and o.value.variant == models.OK
            res.ob(okk)
            if not okk:
                res.finding("set_handler|shape", "set_handler does not read two argument words and return Ok (reads %d, outcome %s)" % (len(reads), o.kind), witness(care))
                continue
            for j in range(8):
                exp = bv.add(ER1, bv.const(j, 32))
                d = differs(reads[j][1], exp, care)
                res.ob(d == 0)
                if d != 0:
                    res.finding("set_handler|arg-address", "argument byte %d is not read at ER1+%d" % (j, j), witness(d))
            vnum = be32(reads[0:4])
            haddr = be32(reads[4:8])
            valid = Mx.AND(bv.ule(bv.const(1, 32), vnum), bv.ule(vnum, bv.const(63, 32)))
            if not writes:
                bad = Mx.AND(care, valid)
                res.ob(bad == 0)
                seen["set-ignore"] = 1
                if bad != 0:
                    res.finding("set_handler|not-installed", "a vector in 1..=63 is not installed", witness(bad))
                continue
            bad = Mx.AND(care, Mx.NOT(valid))
            res.ob(bad == 0)
            if bad != 0:
                res.finding("set_handler|invalid-vector-stored", "a vector outside 1..=63 is written", witness(bad))
            seen["set-store"] = 1
            vec_addr = bv.shl_const(vnum, 2)
            word = bv.add(haddr, bv.const(0x5A000000, 32))
            okk = len(writes) >= 4
            res.ob(okk)
            for j in range(4):
                if j >= len(writes):
                    break
                d = differs(writes[j][1], bv.add(vec_addr, bv.const(j, 32)), care)
                res.ob(d == 0)
                if d != 0:
                    res.finding("set_handler|vector-address", "the handler word is not stored at 4 x vector (+%d)" % j, witness(d))
                lane = word[8 * (3 - j):8 * (4 - j)]
                # the low 24 bits must be the handler address; the top byte is the MES jump opcode
                if j >= 1:
                    d = differs(writes[j][2], haddr[8 * (3 - j):8 * (4 - j)], care)
                    res.ob(d == 0)
                    if d != 0:
                        res.finding("set_handler|vector-value", "byte %d of the stored word is not the handler address (low 24 bits, big-endian)" % j, witness(d))
            extra = writes[4:]
            res.inventory["set_handler_extra_stores"] = len(extra)
            for j, e in enumerate(extra):
                # MES keeps the GOT pointer of the installing task next to the table (H'FFFD10 + 4v): listed, must stay inside that table
                exp = bv.add(bv.add(bv.const(0xFFFD10, 32), vec_addr), bv.const(j, 32))
                d = differs(e[1], exp, care)
                res.ob(d == 0)
                if d != 0:
                    res.finding("set_handler|stray-store", "set_handler stores outside the vector entry and its GOT slot", witness(d))
            continue
        # (2) write
        bad = Mx.AND(care, Mx.NOT(is_write))
        res.ob(bad == 0)
        if bad != 0:
            res.finding("dispatch|write-for-other-id", "a call number other than 104 is executed as write", witness(bad))
        unchanged(st, care, "write")
        res.ob(not writes)
        if writes:
            res.finding("write|memory-written", "the write call modifies guest memory", witness(care))
        if "loop-head" not in kinds:
            continue
        pre = [e for e in effs[:kinds.index("loop-head")] if e[0] == "memread"]
        okk = len(pre) == 12
        res.ob(okk)
        if not okk:
            res.finding("write|arg-block", "the write call does not read three argument words before copying (%d byte reads)" % len(pre), witness(care))
            continue
        for j in range(12):
            d = differs(pre[j][1], bv.add(ER1, bv.const(j, 32)), care)
            res.ob(d == 0)
            if d != 0:
                res.finding("write|arg-address", "argument byte %d is not read at ER1+%d" % (j, j), witness(d))
        buf = be32(pre[4:8])
        length = be32(pre[8:12])
        post = effs[kinds.index("loop-head") + 1:]
        pk = [e[0] for e in post]
        # invariant at the head: i <= length
        inv = bv.ule(idx_var, length)
        care_i = Mx.AND(care, inv)
        if care_i == 0:
            continue
        if "back" in pk:
            # inductive step
            seen["write-step"] = 1
            step_reads = [e for e in post if e[0] == "memread"]
            okk = len(step_reads) == 1 and pk.count("push") == 1 and not [e for e in post if e[0] in ("print", "stdout")]
            res.ob(okk)
            if not okk:
                res.finding("write|loop-shape", "one loop iteration does not read exactly one byte and append exactly one byte (%r)" % pk, witness(care_i))
                continue
            d = differs(step_reads[0][1], bv.add(buf, idx_var), care_i)
            res.ob(d == 0)
            if d != 0:
                res.finding("write|byte-address", "iteration i does not read the byte at buffer + i", witness(d))
            back = [e for e in post if e[0] == "back"][0]
            d = differs(back[1], bv.add(idx_var, bv.const(1, 32)), care_i)
            res.ob(d == 0)
            if d != 0:
                res.finding("write|index-step", "the index does not advance by one per iteration", witness(d))
            okk = back[2] == ("push", ("prefix", idx_var), step_reads[0][2])
            res.ob(okk)
            if not okk:
                res.finding("write|append", "the vector after iteration i is not (bytes 0..i-1) followed by the byte just read", witness(care_i))
            bad = Mx.AND(care_i, Mx.NOT(bv.ult(idx_var, length)))
            res.ob(bad == 0)
            if bad != 0:
                res.finding("write|extra-iteration", "an iteration is executed although i >= length", witness(bad))
        elif "iter-done" in pk:
            # exit: i == length, then exactly one print and one stdout message of the same text
            seen["write-exit"] = 1
            bad = Mx.AND(care_i, Mx.NOT(bv.eq(idx_var, length)))
            res.ob(bad == 0)
            if bad != 0:
                res.finding("write|early-exit", "the copy loop is left before i == length", witness(bad))
            text = ("utf8", ("prefix", idx_var))
            prints = [e for e in post if e[0] == "print"]
            outs_ = [e for e in post if e[0] == "stdout"]
            okk = len(prints) == 1 and len(outs_) == 1 and prints[0][1] == (text,) and outs_[0][1] == text and o.kind == "return" and isinstance(o.value, Enum) and o.value.variant == models.OK
            res.ob(okk)
            if not okk:
                res.finding("write|emit", "after the loop the text of exactly the copied bytes is not printed once and sent once as the stdout message (prints %r, messages %r)" % ([e[1] for e in prints], [e[1] for e in outs_]), witness(care_i))
        if len(res.samples) < 6:
            res.samples.append({"effects": pk[:10], "outcome": o.kind})
    # base case
    base = snap.get("base")
    if base is None:
        res.errors.append("copy loop header never reached")
    else:
        rng, vec, pc0, eff0 = base
        okk = isinstance(vec, Opaque) and vec.data == ("empty",) and bv.to_int(rng.fields[0].bits) == 0
        res.ob(okk)
        if not okk:
            res.finding("write|base-case", "the copy does not start with an empty vector at index 0")
    for k, v in seen.items():
        res.ob(bool(v))
        if not v:
            res.errors.append("no trace of kind %s analysed (vacuous)" % k)
    res.distinct = sum(1 for v in seen.values() if v)
    # send_stdout_message formats "stdout:{}" with its argument
    sm = facts.bodies[k_stdout[0]]
    strs = []
    for bl in sm["blocks"]:
        for s in bl["st"]:
            if s["k"] == "assign":
                r = s["r"]
                for o_ in ([r.get("o")] if r.get("o") else []) + r.get("ops", []):
                    if o_ and o_["k"] == "const" and "str" in o_["v"]:
                        strs.append(o_["v"]["str"])
    res.inventory["stdout_message_strings"] = strs
    # TRAPA #0 is the only entry: who-may-call
    cg = cfgmod.CallGraph(facts)
    callers = cg.callers(k_mes[0])
    res.ob(callers == k_trapa)
    if callers != k_trapa:
        res.finding("gate|callers", "the MES gate is called from %r (only TRAPA may)" % callers)
    # the TRAPA #0 handler around the gate (instruction-level analysis): PC/CCR/registers untouched, gate called once
    import isarun
    agg = isarun.run(facts.path)
    for f in agg["findings"].values():
        if "C14" in f["props"]:
            res.finding("trapa0|" + f["key"], f["msg"], f["witness"], f["detail"])
    o = agg["ob"].get("sem:C14", [0, 0])
    res.obligations += o[0]
    res.discharged += o[1]
    res.floor("TRAPA #0 handler obligations", o[0], 10)
    res.floor("trace kinds", res.distinct, 5)
