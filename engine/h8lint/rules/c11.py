"""C11 - ELF segments and GOT.

(1) reader layout: parse_elf_header32 / parse_program_header32 / parse_section_header32 /
    the symbol parser are interpreted over an abstract cursor; every struct field must be
    the big-endian integer at the offset the ELF32 specification assigns (Ehdr 52 bytes,
    Phdr 32, Shdr 40, Sym 16); SegmentType::from maps 1 (and only 1) to Load; the table
    parsers repeat the entry parser `n` times;
(2) segment copy: elf::load is interpreted with every loop generalised at its header;
    in the program-header loop a copy happens exactly for headers whose type is PT_LOAD,
    from file[p_offset .. p_offset+p_filesz) to DRAM index H'16900 + p_vaddr (absolute
    H'416900 + p_vaddr) of the same length; no other store of the Bus is written there;
(3) GOT: only for the section named ".got": ER5 = sh_addr + H'416900; for the generalised
    index i in 0..sh_size/4 the four bytes at DRAM[H'16900 + sh_addr + 4i ..] are read
    big-endian, H'416900 is added once, and the four lanes are written back big-endian
    to the same four indices; nothing else is written in that loop."""
import bv
import cfg as cfgmod
import isacheck
import loader as loadermod
import models
import nommodel
import strmodel
from interp import Agg, Enum, Int, Interp, Opaque, Ref, SymArr, SymEnum, UNIT

BASE = 0x416900
DRAM_START = 0x400000
OFF = BASE - DRAM_START

LAYOUT = {
    "parse_elf_header32": ("elf::header::ElfHeader32", 52, {"e_type": (16, 2), "machine": (18, 2), "version": (20, 4), "entry": (24, 4), "phoff": (28, 4), "shoff": (32, 4),
                                                              "flags": (36, 4), "ehsize": (40, 2), "phentsize": (42, 2), "phnum": (44, 2), "shentsize": (46, 2), "shnum": (48, 2), "shstrndx": (50, 2)}),
    "parse_program_header32": ("elf::program_header::ProgramHeader32", 32, {"offset": (4, 4), "virtual_addr": (8, 4), "physical_addr": (12, 4), "size_in_file": (16, 4),
                                                                           "size_in_mem": (20, 4), "flags": (24, 4), "align": (28, 4)}),
    "parse_section_header32": ("elf::section::SectionHeader32", 40, {"name_idx": (0, 4), "flags": (8, 4), "addr": (12, 4), "offset": (16, 4), "size": (20, 4), "link": (24, 4),
                                                                     "info": (28, 4), "addr_align": (32, 4), "entry_size": (36, 4)}),
}
SYM_LAYOUT = ("elf::symtab::SymbolTable32", 16, {"name_idx": (0, 4), "value": (4, 4), "size": (8, 4), "info": (12, 1), "other": (13, 1), "shndx": (14, 2)})


def witness(c):
    a = bv.M.sat_one(c)
    return isacheck.group_witness(bv.M.describe_assign(a)) if a is not None else None


def differs(a, b, care):
    Mx = bv.M
    if a is None or b is None or len(a) != len(b):
        return care
    for x, y in zip(a, b):
        if x != y:
            d = Mx.AND(Mx.XOR(x, y), care)
            if d != 0:
                return d
    return 0


def fields_of(facts, path):
    return facts.struct_fields(path)


def get(facts, path, agg, name):
    return agg.fields[fields_of(facts, path).index(name)]


def parser_layout(facts, res):
    sym_fn = [k for k in facts.bodies if k.startswith("elf::parse_symtab::") and k.endswith("32") and k != "elf::parse_symtab::parse_symbol_table32" and "closure" not in k]
    todo = [(fn,) + LAYOUT[fn] for fn in LAYOUT]
    if len(sym_fn) == 1:
        todo.append((sym_fn[0].split("::")[-1],) + SYM_LAYOUT)
    else:
        res.errors.append("anchor symbol entry parser: %r" % sym_fn)
    for fn, spath, total, lay in todo:
        bv.reset()
        ms, pats = models.standard_models()
        ip = Interp(facts, primitives={}, models=ms)
        ip.pattern_models = pats
        log = []
        nommodel.install(ip, log)
        k = facts.find(fn)
        if len(k) != 1:
            res.errors.append("anchor %s: %r" % (fn, k))
            continue
        outs = ip.run_all(k[0], [nommodel.cur(0)], {})
        if ip.unknown_callees:
            res.errors.append("unmodelled callees in %s: %r" % (fn, ip.unknown_callees))
            continue      # the layout of a parser that is not followed precisely is not decided
        oks = [o for o in outs if o.kind == "return" and isinstance(o.value, Enum) and o.value.variant == models.OK and "try-branch-opaque" not in o.state.tags]
        res.ob(bool(oks))
        if not oks:
            res.errors.append("%s: no analysable Ok trace" % fn)
            continue
        names = fields_of(facts, spath)
        for o in oks[:40]:
            tup = o.value.fields[0]
            rest, st_ = tup.fields[0], tup.fields[1]
            if isinstance(rest, Ref):
                rest = ip.read_loc(o.state, rest.root, rest.path)
            okk = isinstance(rest, Opaque) and rest.tag == "cur" and rest.data == total
            res.ob(okk)
            if not okk:
                res.finding("layout|%s|size" % fn, "%s consumes %s bytes, the ELF32 entry has %d" % (fn, getattr(rest, "data", "?"), total))
            for fname, (off, n) in lay.items():
                v = st_.fields[names.index(fname)]
                exp = nommodel.field_var(off, n)
                okk = isinstance(v, Int) and v.bits == exp
                res.ob(okk)
                if not okk:
                    got = "?"
                    if isinstance(v, Int):
                        nm = bv.M.names.get(bv.M.var[v.bits[0]], "?") if v.bits[0] > 1 else "const"
                        got = nm.rsplit(".", 1)[0]
                    res.finding("layout|%s|%s" % (fn, fname), "%s.%s is read from %s, the ELF32 layout places it at offset %d (%d bytes, big-endian)" % (spath.split("::")[-1], fname, got, off, n))
            res.evaluations += 1
        big = all(e == "be_u" for (_, _, e) in log if _ is not None) if log else False
        ends = set(e for (_, n, e) in log if n > 1)
        res.ob(ends <= {"be_u"})
        if not ends <= {"be_u"}:
            res.finding("layout|%s|endianness" % fn, "%s uses a non-big-endian integer parser (%r)" % (fn, sorted(ends)))
        if fn == "parse_program_header32":
            # ty: Load exactly for the value 1 at offset 0
            tyv = nommodel.field_var(0, 4)
            st_t = facts.types[facts.type_by_path["elf::program_header::SegmentType"]]
            load_idx = [i for i, v in enumerate(st_t["variants"]) if v["n"] == "Load"][0]
            for o in oks:
                ty = o.value.fields[0].fields[1].fields[names.index("ty")]
                is1 = bv.eq(tyv, bv.const(1, 32))
                if isinstance(ty, Enum):
                    bad = bv.M.AND(o.state.pc, bv.M.NOT(is1)) if ty.variant == load_idx else bv.M.AND(o.state.pc, is1)
                    res.ob(bad == 0)
                    if bad != 0:
                        res.finding("layout|segment-type", "p_type = %s is decoded as %s" % (witness(bad), st_t["variants"][ty.variant]["n"]), witness(bad))
        res.distinct += 1
    # table parsers: count(entry parser, n)
    for tab, entry in (("parse_program_header_table32", "parse_program_header32"), ("parse_section_header_table32", "parse_section_header32"),
                       ("parse_symbol_table32", "parse_symbol_table_header32")):
        ks = [k for k in facts.bodies if k.endswith(tab + "::{closure#0}")]
        okk = False
        if len(ks) == 1:
            for i, p, t in cfgmod.Cfg(facts.bodies[ks[0]]).calls():
                if p == "nom::multi::count" and t["args"][0]["k"] == "const" and t["args"][0]["v"].get("fn", "").endswith(entry):
                    okk = True
        res.ob(okk)
        if not okk:
            res.finding("layout|%s" % tab, "%s is not count(%s, n)" % (tab, entry))


def run(ctx, res):
    facts = ctx["facts"]
    res.explanation = __doc__.split("\n\n", 1)[1].replace("\n", " ")
    res.rule = "abstract interpretation of the ELF parsers over an abstract cursor and of elf::load with every loop generalised at its header (typed havoc of parser results and iterator elements)"
    res.trusted = ["rustc MIR", "h8facts", "interp.py/models.py/nommodel.py/loader.py/symgen.py", "bdd.py", "nom integer parsers, slice::copy_from_slice, Vec/iterator semantics (library)", "ELF32 layout table in rules/c11.py"]
    res.assumptions = ["structurally valid files (parse errors and out-of-range slices are outside the property)", "the DRAM store is zero-initialised by Bus::new (vec![0; N])"]
    res.not_decided = ["byte-exact presence of every segment byte for arbitrary overlapping layouts and zero fill of gaps as whole-file facts (they follow from (2) and the zero-initialised store)",
                       "'relocated exactly once' when two sections are named .got"]
    parser_layout(facts, res)
    L = loadermod.Loader(facts)
    outs = L.run()
    Mx = bv.M
    PH = "elf::program_header::ProgramHeader32"
    SH = "elf::section::SectionHeader32"
    # loop identification by the iterator they draw from
    # the segment-copy loop: the program-header loop in which some trace copies
    copy_loops = set()
    for o in outs:
        effs = list(o.state.eff)
        for idx, e in enumerate(effs):
            if e[0] == "iter-next" and isinstance(e[3], Agg) and len(e[3].fields) == len(fields_of(facts, PH)) and isinstance(e[3].fields[0], SymEnum):
                heads = [x for x in effs[:idx] if x[0] == "loop-head"]
                rest = effs[idx + 1:]
                stop = [i for i, x in enumerate(rest) if x[0] in ("loop-back", "iter-next", "iter-done")]
                seg = rest[: stop[0]] if stop else rest
                if heads and any(x[0] == "copy" for x in seg):
                    copy_loops.add(heads[-1][1])
    # the relocation loop: the range loop whose iterations write a relocated word back into DRAM
    got_loops = set()
    for o in outs:
        effs = list(o.state.eff)
        for idx, e in enumerate(effs):
            if e[0] == "range-next":
                heads = [x for x in effs[:idx] if x[0] == "loop-head"]
                if heads and any(x[0] == "copy" and x[1] is not None and x[1][0] == "dram" and x[2] is not None and x[2][0] == "bytes" for x in effs[idx + 1:]):
                    got_loops.add(heads[-1][1])
    res.inventory["relocation_loops"] = sorted(got_loops)
    res.ob(len(copy_loops) == 1)
    if len(copy_loops) != 1:
        res.errors.append("expected exactly one segment-copy loop, found %r" % sorted(copy_loops))
    EH = "elf::header::ElfHeader32"
    tables_ok = set()
    res.ob(L.ehdr is not None)
    if L.ehdr is None:
        res.errors.append("the ELF header value was not identified (parse_elf_header32 not called?)")
    seg_seen = {"copy": 0, "skip": 0}
    got_seen = {"step": 0, "er5": 0, "complete": 0}
    other_copy = 0
    for o in outs:
        st = o.state
        effs = list(st.eff)
        kinds = [e[0] for e in effs]
        if o.kind == "panic":
            continue   # malformed files (overflowing sums, short slices) are outside the property
        # ---- program-header loop: the iteration that draws a ProgramHeader32
        for idx, e in enumerate(effs):
            if e[0] == "iter-next" and isinstance(e[3], Agg) and len(e[3].fields) == len(fields_of(facts, PH)) and isinstance(e[3].fields[0], SymEnum):
                ph = e[3]
                rest = effs[idx + 1:]
                stop = [i for i, x in enumerate(rest) if x[0] in ("loop-back", "iter-next", "iter-done")]
                seg = rest[: stop[0]] if stop else rest
                if not stop or rest[stop[0]][0] != "loop-back":
                    continue
                heads = [x for x in effs[:idx] if x[0] == "loop-head"]
                if not heads or heads[-1][1] not in copy_loops:
                    continue   # another loop over the program headers (image extent, C12)
                ty = get(facts, PH, ph, "ty").bits
                is_load = bv.eq(ty, bv.const(1, 64))
                copies = [x for x in seg if x[0] == "copy"]
                care = st.pc
                # every program header of the file is visited
                if L.ehdr is not None and ("pht", repr(e[1])) not in tables_ok:
                    tables_ok.add(("pht", repr(e[1])))
                    loadermod.check_table(res, e[1], "parse_program_header32", bv.zext(get(facts, EH, L.ehdr, "phnum").bits, 64), bv.zext(get(facts, EH, L.ehdr, "phoff").bits, 64),
                                          care, "segment", "segment copy", differs, witness)
                if copies:
                    seg_seen["copy"] = 1
                    bad = Mx.AND(care, Mx.NOT(is_load))
                    res.ob(bad == 0)
                    if bad != 0:
                        res.finding("segment|copied-non-load", "a program header whose type is not PT_LOAD is copied into memory", witness(bad))
                    res.ob(len(copies) == 1)
                    dst, src = copies[0][1], copies[0][2]
                    vaddr = bv.zext(get(facts, PH, ph, "virtual_addr").bits, 64)
                    filesz = bv.zext(get(facts, PH, ph, "size_in_file").bits, 64)
                    offs = bv.zext(get(facts, PH, ph, "offset").bits, 64)
                    # structurally valid files: p_vaddr + p_filesz and p_offset + p_filesz do not exceed 32 bits (in the dev
                    # profile the overflow check already removes these cases; in the release profile the sums wrap and the
                    # slice expressions then fail their start <= end test - a panic, outside the property either way)
                    c1 = bv.add_c(get(facts, PH, ph, "virtual_addr").bits, get(facts, PH, ph, "size_in_file").bits)[1][-1]
                    c2 = bv.add_c(get(facts, PH, ph, "offset").bits, get(facts, PH, ph, "size_in_file").bits)[1][-1]
                    care = Mx.AND(care, Mx.AND(Mx.NOT(c1), Mx.NOT(c2)))
                    exp_ds = bv.add(bv.const(OFF, 64), vaddr)
                    exp_de = bv.add(exp_ds, filesz)
                    exp_se = bv.add(offs, filesz)
                    okk = dst is not None and dst[0] == "dram" and not dst[3]
                    res.ob(okk)
                    if not okk:
                        res.finding("segment|destination-store", "segment bytes are copied to %r, not to DRAM" % (dst and dst[0],), witness(care))
                    else:
                        for what, got_, exp in (("start (H'416900 + p_vaddr)", dst[1], exp_ds), ("end (start + p_filesz)", dst[2], exp_de)):
                            d = differs(got_, exp, care)
                            res.ob(d == 0)
                            if d != 0:
                                res.finding("segment|destination-%s" % what.split(" ")[0], "the destination %s of the segment copy is wrong" % what, witness(d))
                    okk = src is not None and src[0] == "file" and len(src) == 4 and not src[3]
                    res.ob(okk)
                    if not okk:
                        res.finding("segment|source", "segment bytes are not taken from the file image (%r)" % (src and src[0],), witness(care))
                    else:
                        for what, got_, exp in (("start (p_offset)", src[1], offs), ("end (p_offset + p_filesz)", src[2], exp_se)):
                            d = differs(got_, exp, care)
                            res.ob(d == 0)
                            if d != 0:
                                res.finding("segment|source-%s" % what.split(" ")[0], "the source %s of the segment copy is wrong" % what, witness(d))
                else:
                    seg_seen["skip"] = 1
                    # (a PT_LOAD header without file contents has nothing to copy)
                    bad = Mx.AND(Mx.AND(care, is_load), Mx.NOT(bv.is_zero(get(facts, PH, ph, "size_in_file").bits)))
                    res.ob(bad == 0)
                    if bad != 0:
                        res.finding("segment|load-not-copied", "a PT_LOAD program header is not copied into memory", witness(bad))
                # nothing else is written by the iteration
                writes = sum(len(L.store_of(st, n).writes) for n in L.bm.stores)
                res.ob(writes == 0)
                if writes:
                    res.finding("segment|stray-store", "the program-header loop writes a Bus store element directly", witness(care))
                res.evaluations += 1
        # ---- GOT loop: range iterations inside the section loop
        sec = [e for e in effs if e[0] == "iter-next" and isinstance(e[3], Agg) and len(e[3].fields) == 2 and isinstance(e[3].fields[0], Opaque) and e[3].fields[0].tag == "str"
               and (isinstance(e[3].fields[1], Ref) or (isinstance(e[3].fields[1], Agg) and len(e[3].fields[1].fields) == len(fields_of(facts, SH))))]
        if not sec:
            continue
        s_val = sec[-1][3]
        name_t = s_val.fields[0].data
        hdr = s_val.fields[1]
        if isinstance(hdr, Ref):
            hdr = L.ip.read_loc(st, hdr.root, hdr.path)
        is_got = strmodel.eq_var(name_t, ".got")
        care = Mx.AND(st.pc, strmodel.exclusivity())
        if L.ehdr is not None and ("sht", repr(sec[-1][1])) not in tables_ok:
            tables_ok.add(("sht", repr(sec[-1][1])))
            loadermod.check_table(res, sec[-1][1], "parse_section_header32", bv.zext(get(facts, EH, L.ehdr, "shnum").bits, 64), bv.zext(get(facts, EH, L.ehdr, "shoff").bits, 64),
                                  care, "got", "section loop (.got)", differs, witness)
        after = effs[effs.index(sec[-1]) + 1:]
        # every section named .got is relocated: an iteration of the section loop that can be a .got section and
        # completes (reaches the loop's back edge) must have gone through the relocation loop
        heads_before = [x for x in effs[:effs.index(sec[-1])] if x[0] == "loop-head"]
        if heads_before and got_loops:
            h_sec = heads_before[-1][1]
            completed = any(x[0] == "loop-back" and x[1] == h_sec for x in after)
            entered = any(x[0] == "loop-enter" and x[1] in got_loops for x in after)
            if completed:
                # (a .got with no entry needs no relocation: sh_size / 4 == 0 is not a violation)
                nonempty = Mx.NOT(bv.is_zero(bv.lshr_const(get(facts, SH, hdr, "size").bits, 2))) if isinstance(hdr, Agg) else 1
                bad = Mx.AND(Mx.AND(care, is_got), nonempty) if not entered else 0
                res.ob(bad == 0)
                if bad != 0:
                    res.finding("got|skipped", "a section named .got can pass through the section loop without being relocated (a guard skips the relocation loop)", witness(bad))
                got_seen["complete"] = got_seen.get("complete", 0) or (1 if entered else 0)
        rn = [x for x in after if x[0] == "range-next"]
        if rn and "loop-back" in [x[0] for x in after] and isinstance(hdr, Agg):
            copies = [x for x in after[[x[0] for x in after].index("range-next"):] if x[0] == "copy"]
            if not copies:
                continue
            bad = Mx.AND(care, Mx.NOT(is_got))
            res.ob(bad == 0)
            if bad != 0:
                res.finding("got|relocation-outside-got", "words of a section not named .got are relocated", witness(bad))
            got_seen["step"] = 1
            # base case: the relocation loop starts at entry 0
            ent_ = [x for x in after if x[0] == "loop-enter" and x[1] in got_loops]
            if ent_:
                starts = [v for k_, v in ent_[0][2].items() if k_.endswith(".start")]
                okk = len(starts) == 1 and bv.to_int(starts[0]) == 0
                res.ob(okk)
                if not okk:
                    res.finding("got|first-entry", "the relocation loop does not start at entry 0 of the .got", witness(care))
            i = rn[-1][1]
            addr = get(facts, SH, hdr, "addr").bits
            size = get(facts, SH, hdr, "size").bits
            # trip count
            d = differs(rn[-1][2], bv.lshr_const(size, 2), care)
            res.ob(d == 0)
            if d != 0:
                res.finding("got|trip-count", "the relocation loop does not run sh_size / 4 times", witness(d))
            ent = bv.add(addr, bv.shl_const(i, 2))
            gi = bv.add(bv.const(OFF, 64), bv.zext(ent, 64))
            reads = [x for x in after if x[0] == "arrread" and x[1] == "dram"]
            res.ob(len(reads) == 4)
            if len(reads) == 0:
                # the entry is not read byte by byte (e.g. through a 4-byte slice): this rule does not follow that
                if not any("GOT entry is read" in e_ for e_ in res.errors):
                    res.errors.append("a GOT entry is read other than by four byte accesses: not decidable by this rule")
                continue
            if len(reads) != 4:
                res.finding("got|reads", "a GOT entry is read with %d byte accesses" % len(reads), witness(care))
                continue
            nb = len(reads[0][2])
            for j in range(4):
                d = differs(reads[j][2], bv.add(gi, bv.const(j, 64))[:nb], care)
                res.ob(d == 0)
                if d != 0:
                    res.finding("got|read-address|%d" % j, "byte %d of GOT entry i is not read at H'416900 + sh_addr + 4i + %d" % (j, j), witness(d))
            val = reads[3][3] + reads[2][3] + reads[1][3] + reads[0][3]
            newv = bv.add(val, bv.const(BASE, 32))
            res.ob(len(copies) == 1)
            dst, src = copies[0][1], copies[0][2]
            okk = dst is not None and dst[0] == "dram" and dst[1] is not None and dst[2] is not None
            d1 = differs(dst[1], gi, care) if okk else care
            # the four bytes gi .. gi+3: an inclusive range ends at gi+3, an exclusive one at gi+4
            d2 = differs(dst[2], bv.add(gi, bv.const(3 if dst[3] else 4, 64)), care) if okk else care
            res.ob(d1 == 0 and d2 == 0)
            if d1 != 0 or d2 != 0:
                res.finding("got|write-address", "the relocated word is not written back to the four indices it was read from", witness(d1 or d2))
            okk = src[0] == "bytes" and len(src[1]) == 4
            res.ob(okk)
            if okk:
                for j in range(4):
                    lane = newv[8 * (3 - j):8 * (4 - j)]
                    d = differs(src[1][j], lane, care)
                    res.ob(d == 0)
                    if d != 0:
                        res.finding("got|value|%d" % j, "byte %d written back is not lane %d of (entry + H'416900), big-endian, added once" % (j, j), witness(d))
            else:
                res.finding("got|value", "the relocated word is not written as four big-endian bytes", witness(care))
            res.evaluations += 1
        # ER5 on the .got branch (the trace that enters the GOT loop)
        if any(x[0] == "loop-enter" for x in after) and isinstance(hdr, Agg) and Mx.AND(care, is_got) != 0 and Mx.AND(care, Mx.NOT(is_got)) == 0:
            er = st.mem[L.cpu_root].fields[L.I.fi["er"]]
            w5 = [w for w in er.writes if bv.to_int(w[0]) == 5]
            if w5:
                got_seen["er5"] = 1
                d = differs(w5[-1][1], bv.add(get(facts, SH, hdr, "addr").bits, bv.const(BASE, 32)), care)
                res.ob(d == 0)
                if d != 0:
                    res.finding("got|er5", "ER5 is not sh_addr(.got) + H'416900", witness(d))
    # elements dropped by an iterator filter must not be ones the property needs
    for pc_, elem, h_ in loadermod.filtered_out(outs):
        care_ = Mx.AND(pc_, strmodel.exclusivity())
        if isinstance(elem, Agg) and len(elem.fields) == len(fields_of(facts, PH)) and isinstance(elem.fields[0], SymEnum):
            if h_ in copy_loops:
                seg_seen["skip"] = 1     # headers that are not copied are dropped by the filter instead of being skipped in the body
                bad = Mx.AND(Mx.AND(care_, bv.eq(get(facts, PH, elem, "ty").bits, bv.const(1, 64))), Mx.NOT(bv.is_zero(get(facts, PH, elem, "size_in_file").bits)))
                res.ob(bad == 0)
                if bad != 0:
                    res.finding("segment|load-not-copied", "a PT_LOAD program header is filtered out before the copy loop", witness(bad))
        elif isinstance(elem, Agg) and len(elem.fields) == 2 and isinstance(elem.fields[0], Opaque) and elem.fields[0].tag == "str":
            hdr_ = elem.fields[1]
            if isinstance(hdr_, Ref):
                hdr_ = None
            if isinstance(hdr_, Agg) and len(hdr_.fields) == len(fields_of(facts, SH)):
                bad = Mx.AND(Mx.AND(care_, strmodel.eq_var(elem.fields[0].data, ".got")), Mx.NOT(bv.is_zero(bv.lshr_const(get(facts, SH, hdr_, "size").bits, 2))))
                res.ob(bad == 0)
                if bad != 0:
                    res.finding("got|skipped", "a section named .got is filtered out before it is relocated", witness(bad))
    # a NAME of the property compared as a prefix (starts_with without the terminating NUL): other names that merely begin with it match too
    for o_ in outs:
        for e_ in o_.state.eff:
            if e_[0] == "bytes-test" and e_[1] == "prefix" and e_[3] in (b'.got',):
                res.ob(False)
                res.finding("names|prefix-match|%s" % e_[3].decode(), "the name %r is matched as a PREFIX (starts_with without its terminating NUL): a section whose name merely begins with it "
                            "(.got.plt, .got2 ...) is relocated as if it were the GOT" % e_[3].decode(), witness(o_.state.pc))
    for k, v in list(seg_seen.items()) + list(got_seen.items()):
        res.ob(bool(v))
        if not v:
            res.errors.append("no trace of kind %s analysed (vacuous)" % k)
    if L.ip.opaque_stores:
        res.errors.append("unanalysable stores in load: %r" % L.ip.opaque_stores[:3])
    res.inventory["load_traces"] = len(outs)
    res.inventory["load_loops"] = {str(h): len(b) for h, b in L.loops.items()}
    res.inventory["typed_unknown_callees"] = sorted(set(k.split("::")[-1][:30] for k in L.ip.unknown_callees))[:12]
    res.samples.append({"loader_traces": len(outs), "loops_generalised": len(L.loops)})
    res.floor("parser functions analysed", res.distinct, 4)
    res.floor("loader traces", len(outs), 100)
