"""C16 - I/O ports (data latch + direction register + external pins).

on_write_ddr, on_write_dr and write_port are analysed by the abstract interpreter over a
symbolic Bus (array abstractions of the register files and of the pin levels) for a
symbolic port number and symbolic 8-bit values.  Decided per bit, for all values:
(1) the stored DR after a CPU write to DR is  ddr ? written : pin,  after a DDR write
    ddr' ? old : pin,  after an external change  ddr ? old : new_pin  and the pin level
    is recorded;                                  (2) port isolation: exactly the DDR /
    DR / pin entries of THAT port are written (index = port - 1 in all three stores),
    ports outside 1..=0xB are ignored by write_port;   (3) announcements: every step
    either sends one ioport message carrying the new driven value DR' & DDR' with the
    current state count as time stamp, or leaves the driven value unchanged - so the
    last announced value always equals the current output;
(4) latch retention (necessary for 'DR writes performed while bits are inputs followed by
    switching them to outputs'): after a DR write some stored state must depend on the
    written bit where the DDR bit is 0."""
import bv
import isacheck
import models
from busmodel import BusModel, BUS_ROOT, module_models
from interp import Agg, Enum, Int, Interp, Opaque, Ref, SymArr, UNIT

DDR_BASE = 0xFEE000
DR_BASE = 0xFFFFD0
IO1_START = 0xFEE000
IO2_START = 0xFFFF20
NPORT = 11


def witness(c):
    a = bv.M.sat_one(c)
    return isacheck.group_witness(bv.M.describe_assign(a)) if a is not None else None


def setup(facts):
    bv.reset()
    bm = BusModel(facts)
    ms, pats = models.standard_models()
    ip = Interp(facts, primitives={}, models=ms)
    ip.pattern_models = pats
    module_models(ip)
    ip.log_arr = True
    k = facts.find("send_io_port_value")
    if len(k) != 1:
        raise RuntimeError("anchor send_io_port_value: %r" % k)

    def p_msg(ip_, st, fr, t, args):
        bus = st.mem[BUS_ROOT]
        css = bus.fields[bm.fi["cpu_state_sum"]]
        if not (isinstance(args[1], Int) and isinstance(args[2], Int)):
            st.tag("unknown-callee")     # the announced port / value was computed through something the interpreter does not follow: imprecise, decides nothing
            st.add_eff(("msg", None, None, None))
            return Enum(models.OK, [UNIT])
        st.add_eff(("msg", args[1].bits, args[2].bits, css.bits if isinstance(css, Int) else None))
        return Enum(models.OK, [UNIT])
    ip.primitives[k[0]] = p_msg
    return bm, ip


def enum_values(f, bits, limit=64):
    """the concrete values of the bit-vector `bits` that satisfy f (f depends on these bits only); None when there are more than `limit`"""
    Mx = bv.M
    out = []
    while f != 0:
        if len(out) >= limit:
            return None
        a = Mx.sat_one(f)
        v = sum((1 << i) for i, b in enumerate(bits) if b > 1 and a.get(Mx.var[b], 0))
        out.append(v)
        f = Mx.AND(f, Mx.NOT(bv.eq(bits, bv.const(v, len(bits)))))
    return sorted(out)


def dispatch(facts, res):
    """(0) routing: Bus::write is analysed for a symbolic address and value with the two port handlers as summaries.  Decided for all 2^32
    addresses: the DDR (DR) handler is invoked exactly for the 11 DDR (DR) addresses of ports 1..B - an address of the window that is not
    routed leaves the port logic out (stale DR, no announcement), an address outside the window that is routed runs the handler outside its
    domain - with the written address and value, whenever the written value differs from the stored one.
    Returns {kind: set of routed addresses} (the calling contexts the handler analysis below has to cover)."""
    bv.reset()
    bm = BusModel(facts)
    ms, pats = models.standard_models()
    ip = Interp(facts, primitives={}, models=ms)
    ip.pattern_models = pats
    module_models(ip)
    ip.log_arr = True
    Mx = bv.M
    addr = bv.top_bv("addr", 32, 20)
    val = bv.data_bv("val", 8)
    mem = {}
    busref = bm.fresh(mem)

    def p_port(kind):
        def f(ip_, st, fr, t, args):
            st.add_eff(("port", kind, args[1].bits if isinstance(args[1], Int) else None, args[2].bits if isinstance(args[2], Int) else None))
            return [(None, Enum(models.OK, [UNIT])), (None, Enum(models.ERR, [Opaque("port-err")]))]
        return f

    def p_modw(ip_, st, fr, t, args):
        return UNIT
    import cfg as cfgmod
    k_write_ = facts.body("bus::Bus::write")["key"]
    reach_ = cfgmod.CallGraph(facts).reachable(k_write_)
    for nm, kind in (("on_write_ddr", "ddr"), ("on_write_dr", "dr")):
        if facts.find(nm)[0] not in reach_:
            # the handlers this rule knows by name are not what Bus::write calls (the port logic was restructured): the routing
            # cannot be stated in terms of them - not decidable, and the handler analysis keeps the 11-port window as its context
            res.inventory["routing_rule"] = "Bus::write does not reach %s: routing is decided by the composed rule (write:ddr / write:dr) only" % nm
            return {"ddr": None, "dr": None}
        ip.primitives[facts.find(nm)[0]] = p_port(kind)
    c = facts.find("write_registers")
    if len(c) == 1:
        ip.primitives[c[0]] = p_modw
    outs = ip.run_all(k_write_, [busref, Int(addr), Int(val)], mem)
    if ip.unknown_callees:
        res.errors.append("routing: unmodelled callees in Bus::write: %r" % ip.unknown_callees)
    addr_ranks = set(Mx.var[b] for b in addr)
    routed = {}
    for kind, base, store, start in (("ddr", DDR_BASE, "io_registrs1", IO1_START), ("dr", DR_BASE, "io_registrs2", IO2_START)):
        window = Mx.AND(bv.ule(bv.const(base, 32), addr), bv.ule(addr, bv.const(base + NPORT - 1, 32)))
        called = 0
        missed = 0
        badargs = 0
        imprecise = False
        for o in outs:
            st = o.state
            if any(t in st.tags for t in ("opaque-switch", "opaque-assert", "unknown-callee", "unwrap-opaque")):
                imprecise = True
                continue
            pe = [e for e in st.eff if e[0] == "port" and e[1] == kind]
            if pe:
                called = Mx.OR(called, st.pc)
                for e in pe:
                    if e[2] is None or e[3] is None:
                        badargs = Mx.OR(badargs, st.pc)
                        continue
                    for x, y in list(zip(e[2], addr)) + list(zip(e[3], val)):
                        if x != y:
                            badargs = Mx.OR(badargs, Mx.AND(st.pc, Mx.XOR(x, y)))
                if len(pe) > 1:
                    badargs = Mx.OR(badargs, st.pc)
                continue
            if o.kind != "return" or not isinstance(o.value, Enum) or o.value.variant != models.OK:
                continue      # rejected addresses / panics: C09, C15
            c = Mx.AND(st.pc, window)
            if c == 0:
                continue
            # not routed although the address is in the window: fine only if the written value equals the stored one
            exp_idx = bv.sub(addr, bv.const(start, 32))
            same = 0
            for e in st.eff:
                if e[0] == "arrread" and e[1] == store:
                    nb = len(e[2])
                    if all(x == y or Mx.AND(c, Mx.XOR(x, y)) == 0 for x, y in zip(e[2], exp_idx[:nb])):
                        same = Mx.OR(same, bv.eq(tuple(e[3]), val))
            missed = Mx.OR(missed, Mx.AND(c, Mx.NOT(same)))
        if imprecise:
            res.errors.append("routing of %s writes: Bus::write is not followed precisely - not decided" % kind.upper())
            routed[kind] = None
            continue
        sup = lambda f: set(Mx.support(f)) - addr_ranks
        called_a = Mx.exists(called, sup(called))
        outside = Mx.AND(called_a, Mx.NOT(window))
        inside_never = Mx.AND(window, Mx.NOT(called_a))
        res.ob(outside == 0)
        if outside != 0:
            res.finding("routing|%s|outside-window" % kind, "Bus::write runs the %s handler for an address that is not a %s of ports 1..B (the handler derives a port number outside 1..=0xB from it)"
                        % (kind.upper(), kind.upper()), witness(outside))
        res.ob(inside_never == 0 and missed == 0)
        if inside_never != 0 or missed != 0:
            res.finding("routing|%s|missed" % kind, "a CPU write that changes a port's %s does not reach the port logic (DR merge and ioport announcement are skipped)" % kind.upper(),
                        witness(inside_never if inside_never != 0 else missed))
        res.ob(badargs == 0)
        if badargs != 0:
            res.finding("routing|%s|arguments" % kind, "the %s handler is not invoked exactly once with the written address and value" % kind.upper(), witness(badargs))
        routed[kind] = enum_values(called_a, addr)
        res.evaluations += len(outs)
    return routed


def final_elem(ip, arr, idx):
    return ip.arr_read(arr, idx)


_IP = [None]


def differs(a, b, care):
    Mx = bv.M
    for x, y in zip(a, b):
        if x != y:
            d = Mx.AND(Mx.XOR(x, y), care)
            if d != 0:
                r = isacheck.decide_with_arrays(_IP[0], d)
                if r is None:
                    return d
                if r != 0:
                    return r
    return 0


def run(ctx, res):
    facts = ctx["facts"]
    res.explanation = __doc__.split("\n\n", 1)[1].replace("\n", " ")
    res.rule = "forall port, values: stores/effects of on_write_ddr, on_write_dr, write_port == per-bit reference; cofactor test for latch retention"
    res.trusted = ["rustc MIR", "h8facts", "interp.py/models.py", "bdd.py", "per-bit reference in rules/c16.py (from the property statement)"]
    res.assumptions = ["Bus::write routes DDR/DR addresses to the handlers exactly when the value differs from the stored one (decided by C09)",
                       "time stamps are non-decreasing because bus.cpu_state_sum is (C13)"]
    res.not_decided = ["the history property for arbitrary interleavings: it is the closure of the single-step functions, stated not mechanised"]
    res.exhaustive = True
    names = {"ddr": facts.find("on_write_ddr"), "dr": facts.find("on_write_dr"), "pin": facts.find("write_port")}
    for k, v in names.items():
        if len(v) != 1:
            res.errors.append("anchor %s: %r" % (k, v))
            return
    # time stamps: the message carries bus.cpu_state_sum, which is non-decreasing iff only the run loop's accounting writes it (rules/c13)
    from rules import c13 as c13mod
    tw_ = c13mod.timebase_writers(facts)
    res.ob(not [x for x in tw_ if x[2] == "cpu_state_sum"])
    for ent_, w_, fld_ in tw_:
        if fld_ == "cpu_state_sum":
            res.finding("timestamp|bus-clock-writer|%s" % w_.split("::")[-1], "%s writes bus.cpu_state_sum (the time stamp of ioport messages) outside the run loop's accounting, under %s: "
                        "the next accounting step overwrites it and the time stamps can decrease" % (w_, ent_.split("::")[-1]))
    routed = dispatch(facts, res)
    res.inventory["routed_addresses"] = {k: (["0x%x" % a for a in v] if v is not None else "more than 64 / undecided") for k, v in routed.items()}
    # ops "write:ddr" / "write:dr" are the COMPOSED rule: Bus::write itself (whatever it calls - handlers by address, by port number,
    # inlined logic) is analysed for an address of the DDR / DR window and a value that differs from the stored one, against the same
    # per-bit reference; it does not depend on the handlers' names and subsumes the routing rule
    k_write = facts.body("bus::Bus::write")["key"]
    for op in ("ddr", "dr", "pin", "write:ddr", "write:dr"):
        bop = op.split(":")[-1]
        composed = op.startswith("write:")
        bm, ip = setup(facts)
        if composed:
            c_ = facts.find("write_registers")
            if len(c_) == 1:
                ip.primitives[c_[0]] = lambda ip_, st, fr, t, args: UNIT
        _IP[0] = ip
        Mx = bv.M
        mem = {}
        busref = bm.fresh(mem)
        val = bv.data_bv("val", 8)
        if bop == "pin":
            port = bv.top_bv("port", 8, 20)
            args = [busref, Int(port), Int(val)]
            valid = Mx.AND(bv.ule(bv.const(1, 8), port), bv.ule(port, bv.const(NPORT, 8)))
            p0 = bv.sub(port, bv.const(1, 8))
        else:
            base = DDR_BASE if bop == "ddr" else DR_BASE
            addr = bv.top_bv("addr", 32, 20)
            args = [busref, Int(addr), Int(val)]
            valid = Mx.AND(bv.ule(bv.const(base, 32), addr), bv.ule(addr, bv.const(base + NPORT - 1, 32)))
            p0 = bv.sub(addr, bv.const(base, 32))[:8]
            # the calling contexts Bus::write really produces (rule 0): panics are judged on them, the per-bit reference on the 11 ports
            ctx_ = valid
            for a_ in (routed.get(bop) or ()):
                ctx_ = Mx.OR(ctx_, bv.eq(addr, bv.const(a_, 32)))
        entry_ = k_write if composed else names[bop][0]
        outs = ip.run_all(entry_, args, mem)
        if ip.unknown_callees:
            res.errors.append("unmodelled callees in %s: %r" % (entry_, ip.unknown_callees))
        # old state of the port (initial contents at the port's indices)
        i_ddr = bv.zext(p0, 8)                                   # io_registrs1[p]
        i_dr = bv.add(bv.zext(p0, 8), bv.const(DR_BASE - IO2_START, 8))   # io_registrs2[0xb0 + p]
        i_pin = bv.zext(p0, 4)
        a_io1 = SymArr("io_registrs1", bm.lens["io_registrs1"], 8)
        a_io2 = SymArr("io_registrs2", bm.lens["io_registrs2"], 8)
        a_pin = SymArr("io_port_in", bm.lens["io_port_in"], 8)
        DDR = ip.arr_read(a_io1, tuple(i_ddr[:8]))
        DR = ip.arr_read(a_io2, tuple(i_dr[:8]))
        PIN = ip.arr_read(a_pin, tuple(i_pin[:4]))
        css0 = bv.data_bv("css", 64)
        seen_valid = 0
        for o in outs:
            st = o.state
            care = Mx.AND(st.pc, valid)
            if composed:
                # the stored value differs from the written one (otherwise Bus::write may leave everything as it is)
                prev_ = DDR if bop == "ddr" else DR
                care = Mx.AND(care, Mx.NOT(bv.eq(tuple(prev_), tuple(val))))
                if care == 0 or o.kind == "panic" or not (isinstance(o.value, Enum) and o.value.variant == models.OK):
                    continue      # other addresses, panics and rejected accesses are C09's / C15's
            if any(t in st.tags for t in ("opaque-switch", "opaque-assert", "unknown-callee")):
                res.errors.append("imprecise trace in %s: %r" % (op, st.tags))
                continue     # an imprecisely followed trace decides nothing
            if o.kind == "panic":
                carep = Mx.AND(st.pc, ctx_) if bop != "pin" else st.pc      # write_port is handed any port number the control channel names
                if carep != 0:
                    res.ob(False)
                    res.finding("%s|panic|%s" % (op, o.info.get("kind")), "the port handler can panic (%s, line %s)%s" % (o.info.get("kind"), o.info.get("line"),
                                "" if care != 0 else " outside the port window (an address Bus::write routes to it / a port number the control channel can name)"), witness(carep))
                continue
            w1 = bm.store_of(st, "io_registrs1").writes
            w2 = bm.store_of(st, "io_registrs2").writes
            wp = bm.store_of(st, "io_port_in").writes
            others = sum(len(bm.store_of(st, n).writes) for n in bm.stores if n not in ("io_registrs1", "io_registrs2", "io_port_in"))
            msgs = [e for e in st.eff if e[0] == "msg"]
            if bop == "pin":
                inv = Mx.AND(st.pc, Mx.NOT(valid))
                if inv != 0 and care == 0:
                    okk = not (w1 or w2 or wp or msgs or others)
                    res.ob(okk)
                    if not okk:
                        res.finding("pin|invalid-port-acts", "write_port acts on a port number outside 1..=0xB", witness(inv))
                    continue
            if care == 0:
                continue
            seen_valid = Mx.OR(seen_valid, care)
            res.evaluations += 1
            res.ob(others == 0)
            if others:
                res.finding("%s|foreign-store" % op, "the port handler writes a store other than the port registers / pin levels", witness(care))
            # expected new state
            nDDR = val if bop == "ddr" else DDR
            if bop == "ddr":
                nDR = bv.OR(bv.AND(DR, val), bv.AND(bv.NOT(val), PIN))
            elif bop == "dr":
                nDR = bv.OR(bv.AND(val, DDR), bv.AND(bv.NOT(DDR), PIN))
            else:
                nDR = bv.OR(bv.AND(DR, DDR), bv.AND(bv.NOT(DDR), val))
            nPIN = val if bop == "pin" else PIN
            # final contents of this port's three cells
            fin1 = ip.arr_read(bm.store_of(st, "io_registrs1"), tuple(i_ddr[:8]))
            fin2 = ip.arr_read(bm.store_of(st, "io_registrs2"), tuple(i_dr[:8]))
            finp = ip.arr_read(bm.store_of(st, "io_port_in"), tuple(i_pin[:4]))
            for what, got, exp in (("DDR", fin1, nDDR), ("DR", fin2, nDR), ("pin level", finp, nPIN)):
                d = differs(got, exp, care)
                res.ob(d == 0)
                if d != 0:
                    res.finding("%s|%s" % (op, what), "after %s the stored %s is not the reference merge of latch, direction and pins" % ({"ddr": "a DDR write", "dr": "a DR write", "pin": "an external change"}[bop], what), witness(d))
            # isolation: every write goes to this port's cell
            for sname, ws, idx in (("io_registrs1", w1, i_ddr[:8]), ("io_registrs2", w2, i_dr[:8]), ("io_port_in", wp, i_pin[:4])):
                for widx, wval in ws:
                    nb = min(len(widx), len(idx))
                    d = differs(tuple(widx[:nb]), tuple(idx[:nb]), care)
                    res.ob(d == 0)
                    if d != 0:
                        res.finding("%s|isolation|%s" % (op, sname), "a write to %s does not hit the entry of the addressed port (ports influence each other)" % sname, witness(d))
            # announcements
            out_old = bv.AND(DR, DDR)
            out_new = bv.AND(nDR, nDDR)
            if msgs:
                res.ob(len(msgs) == 1)
                m = msgs[0]
                portnum = bv.add(bv.zext(p0, 8), bv.const(1, 8))
                d1 = differs(m[1], portnum, care)
                d2 = differs(m[2], out_new, care)
                d3 = differs(m[3], css0, care) if m[3] is not None else care
                for d, what in ((d1, "port number"), (d2, "driven value DR & DDR"), (d3, "time stamp (bus.cpu_state_sum)")):
                    res.ob(d == 0)
                    if d != 0:
                        res.finding("%s|message|%s" % (op, what.split(" ")[0]), "the ioport message does not carry the %s" % what, witness(d))
            else:
                d = differs(out_new, out_old, care)
                res.ob(d == 0)
                if d != 0:
                    res.finding("%s|message|missing" % op, "the driven output changes without an ioport message", witness(d))
            if op == "dr":
                # latch retention: under ddr.k = 0, does anything stored depend on val.k ?
                lost = []
                stored = [wval for _, wval in w1] + [wval for _, wval in w2] + [wval for _, wval in wp]
                for kbit in range(8):
                    dk = DDR[kbit]
                    vk = val[kbit]
                    dep = False
                    for wv in stored:
                        for b in wv:
                            if b < 2 or dk < 2 or vk < 2:
                                continue
                            b0 = Mx.restrict(b, {Mx.var[dk]: 0})
                            if Mx.var[vk] in Mx.support(b0):
                                dep = True
                    if not dep:
                        lost.append(kbit)
                res.ob(not lost)
                if lost:
                    res.finding("latch|dr-write-while-input", "a DR bit written while its DDR bit is 0 is not retained anywhere (bits %r): switching the bit to output later "
                                "cannot restore the value the CPU wrote" % lost, {"ddr": "0x00", "written": "0xff", "pins": "0x00", "then": "DDR := 0xff reads DR = 0x00, must be 0xff"})
            if len(res.samples) < 6:
                res.samples.append({"op": op, "writes": {"io_registrs1": len(w1), "io_registrs2": len(w2), "io_port_in": len(wp)}, "messages": len(msgs)})
        res.ob(seen_valid != 0)
        if seen_valid == 0:
            res.errors.append("no valid-port trace for %s" % op)
        res.distinct += 1
    res.floor("handlers analysed", res.distinct, 3)
    res.floor("obligations", res.obligations, 28)
