"""C18 - control socket and framing.

(A) dispatch: Cpu::run is analysed with a control socket present; strings are abstract
    terms, the batch iterator yields symbolic messages.  Two consecutive messages of one
    batch are followed: whatever the first message is (malformed, unknown, well formed),
    the second one is still fetched from the iterator unless the first was cmd:stop (run
    returns Ok) - so batching is immaterial; pause/start set/clear the pause flag and
    nothing else does; u8 / ioport lines reach parse_u8 / parse_ioport exactly when the
    first field is that keyword; a field count other than 2 for cmd is ignored;
(B) parse_u8 / parse_ioport: field count != 3 or a non-hex field does nothing, radix 16,
    one Bus::write / write_port with the parsed numbers, a failing write is swallowed,
    never an error, never a panic;
(C) framing: in the send worker the text written for message m is
    replace(replace(m, '\\', "\\\\"), '\n', "\\n") + "\n" (this order), one write_all and
    one flush per message, messages taken from the FIFO channel in order; the receive
    side strips the newline and forwards each line once; pop_messages drains the channel
    with try_iter().collect(); send_message forwards a clone of its argument."""
import os
import bv
import cfg as cfgmod
import isa as isamod
import isacheck
import models
import strmodel
from interp import Agg, Enum, Int, Interp, Opaque, Ref, UNIT
from rules import c13


def witness(c):
    a = bv.M.sat_one(c)
    return isacheck.group_witness(bv.M.describe_assign(a)) if a is not None else None


def differs(a, b, care):
    Mx = bv.M
    if len(a) != len(b):
        return care
    for x, y in zip(a, b):
        if x != y:
            d = Mx.AND(Mx.XOR(x, y), care)
            if d != 0:
                return d
    return 0


def eqv(n, k, text):
    vec = ("split", ("msg", n), 58)
    return strmodel.eq_var(("field", vec, k), text)


def lenv(n):
    return strmodel.len_var(("split", ("msg", n), 58))


def part_a(facts, res):
    strmodel.reset()
    state = {}

    def setup(ip, c):
        strmodel.install(ip)
        body = c["body"]
        g = c["cfg"]
        k_run = c["k_run"]
        # inner loop: the loop whose header calls Iterator::next
        inner = None
        for h, blocks in c["loops"].items():
            t = body["blocks"][h]["term"]
            if t["k"] == "call" and (t["callee"]["path"] or "").endswith("Iterator>::next"):
                inner = h
        if inner is None:
            raise RuntimeError("message loop (Iterator::next header) not found in run")
        state["inner"] = inner
        # the pause flag, by role: the named bool local of run that is assigned inside the message loop (whatever it is called)
        paused_local = c["names"].get("is_paused")
        if paused_local is None:
            cands_ = set()
            for b_ in c["loops"][inner]:
                for s_ in body["blocks"][b_]["st"]:
                    if s_["k"] == "assign" and not s_["p"]["p"]:
                        loc_ = body["locals"][s_["p"]["l"]]
                        if loc_.get("n") and ip.types[loc_["ty"]]["k"] == "bool":
                            cands_.add(s_["p"]["l"])
            if len(cands_) == 1:
                paused_local = cands_.pop()
        state["paused_local"] = paused_local

        def at_inner(ip_, st, fr, n):
            if paused_local is not None:
                v = st.mem.get(("f", fr.fid, paused_local))
                st.add_eff(("paused_at", n, v.bits[0] if isinstance(v, Int) else None))
            if n >= 2:
                return "stop"
            return "continue"
        ip.block_hooks[(k_run, inner)] = at_inner

        def p_pop(ip_, st, fr, t, args):
            i = st.count("ctl")
            okv = bv.ctl_var("ok", i)
            st.add_eff(("pop_messages",))
            return [(okv, Enum(models.OK, [Opaque("msgs")])), (bv.M.NOT(okv), Enum(models.ERR, [Opaque("e")]), lambda s: s.tag("failed:pop_messages"))]

        def m_into_iter(ip_, st, fr, t, args):
            return Opaque("iter")

        def m_next(ip_, st, fr, t, args):
            n = st.count("msg")
            i = st.count("ctl")
            some = bv.ctl_var("more", i)
            return [(some, Enum(models.SOME, [strmodel.S(("msg", n))]), lambda s: s.add_eff(("next", n, "some"))),
                    (bv.M.NOT(some), Enum(models.NONE, []), lambda s: s.add_eff(("next", n, "none")))]

        def p_parse(name):
            def f(ip_, st, fr, t, args):
                tm = strmodel.term_of(ip_, st, args[1])
                n = tm[1][1] if tm and tm[0] == "split" else None
                st.add_eff((name, n))
                if name == "parse_u8":
                    i = st.count("ctl")
                    okv = bv.ctl_var("ok", i)
                    return [(okv, Enum(models.OK, [UNIT])), (bv.M.NOT(okv), Enum(models.ERR, [Opaque("e")]), lambda s: s.tag("failed:parse_u8"))]
                return UNIT
            return f
        have_handlers = all(len(facts.find(nm)) == 1 for nm in ("parse_u8", "parse_ioport")) and os.environ.get("H8_C18_INLINE") != "1"
        state["inline"] = not have_handlers
        for nm in ("parse_u8", "parse_ioport", "pop_messages"):
            k = facts.find(nm)
            if nm != "pop_messages" and not have_handlers:
                continue
            if len(k) != 1:
                raise RuntimeError("anchor %s: %r" % (nm, k))
            ip.primitives[k[0]] = p_pop if nm == "pop_messages" else p_parse(nm)
        if not have_handlers:
            # no parse_u8 / parse_ioport to summarise: whatever handles the lines is followed down to the effects themselves
            radix_ids = {}

            def m_radix(ip_, st, fr, t, args):
                tm = strmodel.term_of(ip_, st, args[0])
                radix = bv.to_int(args[1].bits) if isinstance(args[1], Int) else None
                w = ip_.int_info(ip_.types[t["dest"]["ty"]]["args"][0])[0]
                v = bv.seq_bv("num_%d_%d" % (radix_ids.setdefault(tm, len(radix_ids)), w), w)
                i = st.count("ctl")
                okv = bv.ctl_var("hex", i)
                return [(okv, Enum(models.OK, [Int(v)]), lambda s: s.add_eff(("radix", tm, radix, w, v, True))),
                        (bv.M.NOT(okv), Enum(models.ERR, [Opaque("parse-error")]), lambda s: s.add_eff(("radix", tm, radix, w, None, False)))]
            ip.pattern_models.insert(0, (lambda p, f: p.endswith("::from_str_radix"), m_radix))

            def p_write(ip_, st, fr, t, args):
                a_ = args[1].bits if isinstance(args[1], Int) else None
                v_ = args[2].bits if isinstance(args[2], Int) else None
                i = st.count("ctl")
                okv = bv.ctl_var("wok", i)
                return [(okv, Enum(models.OK, [UNIT]), lambda s: s.add_eff(("bus.write", a_, v_, True))),
                        (bv.M.NOT(okv), Enum(models.ERR, [Opaque("buserr")]), lambda s: s.add_eff(("bus.write", a_, v_, False)))]

            def p_port(ip_, st, fr, t, args):
                st.add_eff(("write_port", args[1].bits if isinstance(args[1], Int) else None, args[2].bits if isinstance(args[2], Int) else None, True))
                return UNIT
            ip.primitives[facts.body("bus::Bus::write")["key"]] = p_write
            kp = facts.find("write_port")
            if len(kp) != 1:
                raise RuntimeError("anchor write_port: %r" % kp)
            ip.primitives[kp[0]] = p_port
        ip.models["<std::vec::Vec<T, A> as std::iter::IntoIterator>::into_iter"] = m_into_iter
        ip.models["<std::vec::IntoIter<T, A> as std::iter::Iterator>::next"] = m_next
    I, ip, outs, info, names, body, g, busfi = c13.analyse(facts, with_socket=True, extra_setup=setup)
    if ip.unknown_callees:
        res.errors.append("unmodelled callees in run (socket present): %r" % ip.unknown_callees)
    Mx = bv.M
    excl = None
    seen = {"continues": 0, "stop": 0, "abandon": 0}
    followed = 0
    for o in outs:
        st = o.state
        if st.ctr.get(("visit", info["header"]), 0) == 0:
            continue
        if any(t in st.tags for t in ("opaque-assert", "unknown-callee")):
            res.errors.append("imprecise trace: %r" % (st.tags,))
            continue     # an imprecisely followed trace decides nothing
        effs = list(st.eff)
        nexts = [e for e in effs if e[0] == "next"]
        if not nexts:
            continue
        excl = strmodel.exclusivity()
        care0 = Mx.AND(st.pc, excl)
        if care0 == 0:
            continue
        followed += 1
        if o.kind == "panic" and any(e[0] in ("try_interrupt", "fetch", "exec", "modules", "sync") for e in effs):
            continue   # after the message loop (whatever the order of the later phases is): not a control-line matter (C15 takes it from the run-loop analysis)
        if o.kind == "panic":
            res.ob(False)
            res.finding("dispatch|panic|%s" % o.info.get("kind"), "processing a control line can panic (%s, line %s)" % (o.info.get("kind"), o.info.get("line")), witness(care0))
            continue
        pa = {e[1]: e[2] for e in effs if e[0] == "paused_at"}
        for idx, e in enumerate(effs):
            if e[0] != "next" or e[2] != "some":
                continue
            n = e[1]
            rest = effs[idx + 1:]
            cmd = eqv(n, 0, "cmd")
            u8 = eqv(n, 0, "u8")
            iop = eqv(n, 0, "ioport")
            len2 = bv.eq(lenv(n), bv.const(2, 64))
            is_stop = Mx.AND(Mx.AND(cmd, len2), eqv(n, 1, "stop"))
            is_pause = Mx.AND(Mx.AND(cmd, len2), eqv(n, 1, "pause"))
            is_start = Mx.AND(Mx.AND(cmd, len2), eqv(n, 1, "start"))
            nxt = [x for x in rest if x[0] == "next"]
            later = [x[0] for x in rest if x[0] in ("try_interrupt", "fetch", "exec", "modules", "sync")]
            this_msg = rest[: rest.index(nxt[0])] if nxt else rest
            kinds = [x[0] for x in this_msg]
            ended = not nxt
            # (a) the batch is never abandoned
            if ended and (later or (o.kind == "stop" and o.info.get("bb") == info["header"])):
                res.ob(False)
                seen["abandon"] = 1
                res.finding("dispatch|batch-abandoned", "after control line %d the message loop is left although the batch may hold more lines" % n, witness(care0))
                continue
            if ended and o.kind == "return":
                okv = isinstance(o.value, Enum) and o.value.variant == models.OK
                failed = [t for t in st.tags if t.startswith("failed:")]
                if okv:
                    bad = Mx.AND(care0, Mx.NOT(is_stop))
                    res.ob(bad == 0)
                    seen["stop"] = 1
                    if bad != 0:
                        res.finding("dispatch|ok-without-stop", "run returns Ok on a control line that is not cmd:stop", witness(bad))
                else:
                    res.ob(bool(failed))
                    if not failed:
                        res.finding("parse_u8|error" if any(x[0] == "bus.write" and not x[3] for x in this_msg) else "dispatch|error-return",
                                    "a control line makes run return an error (a malformed or failing line must be ignored)", witness(care0))
                continue
            # the trace goes on with the next line (or was cut at the bound)
            seen["continues"] = 1
            bad = Mx.AND(care0, is_stop)
            res.ob(bad == 0)
            if bad != 0:
                res.finding("dispatch|stop-ignored", "cmd:stop does not end execution", witness(bad))
            if state.get("inline"):
                len3 = bv.eq(lenv(n), bv.const(3, 64))
                acts = [x for x in this_msg if x[0] in ("bus.write", "write_port")]
                rad = [x for x in this_msg if x[0] == "radix"]
                parse_failed = any(not x[5] for x in rad)
                vec_ = ("split", ("msg", n), 58)
                by = {x[1]: x for x in rad if x[5]}
                f1 = by.get(("field", vec_, 1))
                f2 = by.get(("field", vec_, 2))
                res.ob(len(acts) <= 1)
                if len(acts) > 1:
                    res.finding("dispatch|effects|count", "one control line performs %d writes" % len(acts), witness(care0))
                for a_ in acts[:1]:
                    isw = a_[0] == "bus.write"
                    kwc = Mx.AND(u8 if isw else iop, len3)
                    bad = Mx.AND(care0, Mx.NOT(kwc))
                    res.ob(bad == 0)
                    if bad != 0:
                        res.finding("parse_%s|field-count" % ("u8" if isw else "ioport"), "a %s is performed for a line that is not '%s' with exactly 3 fields"
                                    % ("memory write" if isw else "port write", "u8" if isw else "ioport"), witness(bad))
                    w1 = 32 if isw else 8
                    okk = f1 is not None and f2 is not None and f1[2] == 16 and f2[2] == 16 and f1[3] == w1 and f2[3] == 8 \
                        and a_[1] is not None and a_[2] is not None and tuple(a_[1]) == tuple(f1[4]) and tuple(a_[2]) == tuple(f2[4])
                    res.ob(okk)
                    seen["act-" + ("u8" if isw else "ioport")] = 1
                    if not okk:
                        res.finding("parse_%s|arguments" % ("u8" if isw else "ioport"), "the %s is not given hex(field 1), hex(field 2) of the line (radix %r/%r)"
                                    % ("memory write" if isw else "port write", f1 and f1[2], f2 and f2[2]), witness(care0))
                if not acts and not parse_failed:
                    for kw_, nm_ in ((u8, "u8"), (iop, "ioport")):
                        bad = Mx.AND(care0, Mx.AND(kw_, len3))
                        res.ob(bad == 0)
                        if bad != 0:
                            res.finding("dispatch|parse_%s|missed" % nm_, "a well-formed %s line (3 fields, hex numbers) performs no write" % nm_, witness(bad))
            for kw, nm in (() if state.get("inline") else ((u8, "parse_u8"), (iop, "parse_ioport"))):
                has = nm in kinds
                if has:
                    bad = Mx.AND(care0, Mx.NOT(kw))
                    res.ob(bad == 0 and kinds.count(nm) == 1 and [x for x in this_msg if x[0] == nm][0][1] == n)
                    if bad != 0 or kinds.count(nm) != 1:
                        res.finding("dispatch|%s|spurious" % nm, "%s is invoked for a line whose first field is not that keyword (or more than once)" % nm, witness(bad or care0))
                else:
                    bad = Mx.AND(care0, kw)
                    res.ob(bad == 0)
                    if bad != 0:
                        res.finding("dispatch|%s|missed" % nm, "a %s line is not passed to %s" % (nm[6:], nm), witness(bad))
            # pause flag
            if n in pa and (n + 1) in pa and (pa[n] is None or pa[n + 1] is None):
                res.ob(False)
                res.finding("dispatch|pause-flag", "the pause flag after a control line is not a function of the keywords only (it depends on an unanalysable value)", witness(care0))
            elif n in pa and (n + 1) in pa:
                exp = Mx.ITE(is_pause, 1, Mx.ITE(is_start, 0, pa[n]))
                bad = Mx.AND(care0, Mx.XOR(exp, pa[n + 1]))
                res.ob(bad == 0)
                if bad != 0:
                    res.finding("dispatch|pause-flag", "the pause flag after a control line is not: set by cmd:pause, cleared by cmd:start, otherwise unchanged", witness(bad))
            res.evaluations += 1
        if len(res.samples) < 4:
            res.samples.append({"effects": [e[0] if e[0] != "next" else "next(%s,%s)" % (e[1], e[2]) for e in effs][:14], "outcome": o.kind})
    res.inventory["traces_with_control_lines"] = followed
    res.inventory["control_line_mode"] = "handlers followed to Bus::write / write_port (no parse_u8 / parse_ioport summaries)" if state.get("inline") else "parse_u8 / parse_ioport summarised (part B analyses them)"
    for k in ("continues", "stop") + (("act-u8", "act-ioport") if state.get("inline") else ()):
        seen.setdefault(k, 0)
        res.ob(bool(seen[k]))
        if not seen[k]:
            res.errors.append("no trace of kind '%s' analysed (vacuous)" % k)
    # keyword tables
    kws0 = sorted(set(text for (term, text) in strmodel.eq_vars() if term[0] == "field" and term[2] == 0))
    kws1 = sorted(set(text for (term, text) in strmodel.eq_vars() if term[0] == "field" and term[2] == 1))
    res.inventory["first_field_keywords"] = kws0
    res.inventory["cmd_keywords"] = kws1
    precise = not ip.unknown_callees
    res.ob(kws0 == ["cmd", "ioport", "u8"])
    if kws0 != ["cmd", "ioport", "u8"]:
        if kws0 and precise:
            res.finding("dispatch|keywords", "first-field keywords are %r, the protocol has cmd/u8/ioport" % kws0)
        else:
            res.errors.append("the first-field keywords could not be read off the code (%r): not decidable" % kws0)
    res.ob(kws1 == ["pause", "start", "stop"])
    if kws1 != ["pause", "start", "stop"]:
        if kws1 and precise:
            res.finding("dispatch|cmd-keywords", "cmd keywords are %r, the protocol has pause/start/stop" % kws1)
        else:
            res.errors.append("the cmd keywords could not be read off the code (%r): not decidable" % kws1)


def part_b(facts, res):
    if not all(len(facts.find(nm)) == 1 for nm in ("parse_u8", "parse_ioport")) or os.environ.get("H8_C18_INLINE") == "1":
        return     # no separate handlers: part A followed the lines down to the writes themselves
    for nm in ("parse_u8", "parse_ioport"):
        bv.reset()
        strmodel.reset()
        I = isamod.Isa(facts)
        ms, pats = models.standard_models()
        ip = Interp(facts, primitives={}, models=ms)
        ip.pattern_models = pats
        c13.time_models(ip)
        strmodel.install(ip)
        parsed = []

        def m_radix(ip_, st, fr, t, args, parsed=parsed):
            tm = strmodel.term_of(ip_, st, args[0])
            radix = bv.to_int(args[1].bits) if isinstance(args[1], Int) else None
            w = ip_.int_info(ip_.types[t["dest"]["ty"]]["args"][0])[0]
            v = bv.seq_bv("num_f%s" % (tm[2] if tm and tm[0] == "field" else len(parsed)), w)
            parsed.append((tm, radix, v))
            st.add_eff(("from_str_radix", tm, radix))
            i = st.count("ctl")
            okv = bv.ctl_var("hex", i)
            return [(okv, Enum(models.OK, [Int(v)])), (bv.M.NOT(okv), Enum(models.ERR, [Opaque("parse-error")]))]
        ip.pattern_models.insert(0, (lambda p, f: p.endswith("::from_str_radix"), m_radix))

        def p_write(ip_, st, fr, t, args):
            if not (isinstance(args[1], Int) and isinstance(args[2], Int)):
                st.tag("unknown-callee")      # the operand was computed through something the interpreter does not follow: imprecise, decides nothing
                st.add_eff(("bus.write", None, None))
                return [(None, Enum(models.OK, [UNIT])), (None, Enum(models.ERR, [Opaque("buserr")]))]
            st.add_eff(("bus.write", args[1].bits, args[2].bits))
            i = st.count("ctl")
            okv = bv.ctl_var("wok", i)
            return [(okv, Enum(models.OK, [UNIT])), (bv.M.NOT(okv), Enum(models.ERR, [Opaque("buserr")]))]

        def p_port(ip_, st, fr, t, args):
            if not (isinstance(args[1], Int) and isinstance(args[2], Int)):
                st.tag("unknown-callee")
                st.add_eff(("write_port", None, None))
                return UNIT
            st.add_eff(("write_port", args[1].bits, args[2].bits))
            return UNIT
        ip.primitives[facts.body("bus::Bus::write")["key"]] = p_write
        ip.primitives[facts.find("write_port")[0]] = p_port
        key = facts.find(nm)[0]
        vec = Opaque("strvec", ("split", ("msg", 0), 58))
        cpu = I.fresh_cpu()
        outs = ip.run_all(key, [Ref(isamod.CPU_ROOT, ()), vec], {isamod.CPU_ROOT: cpu})
        if ip.unknown_callees:
            res.errors.append("unmodelled callees in %s: %r" % (nm, ip.unknown_callees))
        Mx = bv.M
        ln = strmodel.len_var(("split", ("msg", 0), 58))
        len3 = bv.eq(ln, bv.const(3, 64))
        acted = 0
        for o in outs:
            st = o.state
            if any(t_ in st.tags for t_ in ("opaque-switch", "opaque-assert", "unknown-callee", "unwrap-opaque")):
                msg_ = "imprecise trace in %s: %r" % (nm, st.tags)
                if msg_ not in res.errors:
                    res.errors.append(msg_)
                acted = acted or 1
                continue     # an imprecisely followed trace decides nothing
            if o.kind == "panic":
                res.ob(False)
                res.finding("%s|panic|%s" % (nm, o.info.get("kind")), "%s can panic on a malformed line (%s, line %s)" % (nm, o.info.get("kind"), o.info.get("line")), witness(st.pc))
                continue
            okret = o.kind == "return" and (not isinstance(o.value, Enum) or o.value.variant == models.OK)
            res.ob(okret)
            if not okret:
                res.finding("%s|error" % nm, "%s returns an error (a malformed or failing line must be ignored)" % nm, witness(st.pc))
            acts = [e for e in st.eff if e[0] in ("bus.write", "write_port")]
            pr = [e for e in st.eff if e[0] == "from_str_radix"]
            if acts:
                bad = Mx.AND(st.pc, Mx.NOT(len3))
                res.ob(bad == 0)
                if bad != 0:
                    res.finding("%s|field-count" % nm, "%s acts on a line that does not have exactly 3 fields" % nm, witness(bad))
                res.ob(len(acts) == 1)
                acted = 1
                # arguments are the parsed numbers of fields 1 and 2, radix 16
                by = {p[0]: p for p in parsed}
                f1 = by.get(("field", ("split", ("msg", 0), 58), 1))
                f2 = by.get(("field", ("split", ("msg", 0), 58), 2))
                okk = f1 is not None and f2 is not None and f1[1] == 16 and f2[1] == 16 and acts[0][1] == f1[2] and acts[0][2] == f2[2]
                res.ob(okk)
                if not okk:
                    res.finding("%s|arguments" % nm, "%s does not pass hex(field 1), hex(field 2) to the write (radix %r/%r)" % (nm, f1 and f1[1], f2 and f2[1]), witness(st.pc))
            res.evaluations += 1
        res.ob(bool(acted))
        if not acted:
            res.finding("%s|never-acts" % nm, "%s never performs its write" % nm)


def part_c(facts, res):
    # ---- send worker
    bv.reset()
    strmodel.reset()
    ms, pats = models.standard_models()
    ip = Interp(facts, primitives={}, models=ms)
    ip.pattern_models = pats
    c13.time_models(ip)
    strmodel.install(ip)
    key = [k for k in facts.bodies if k.endswith("start_send_worker::{closure#0}")]
    if len(key) != 1:
        res.errors.append("anchor send worker closure: %r" % key)
        return
    key = key[0]
    body = facts.bodies[key]
    g = cfgmod.Cfg(body)
    loops = g.loops()
    if not loops:
        res.errors.append("send worker has no loop")
        return
    header = max(loops, key=lambda h: len(loops[h]))

    def m_recv(ip_, st, fr, t, args):
        n = st.count("msg")
        i = st.count("ctl")
        okv = bv.ctl_var("ok", i)
        return [(okv, Enum(models.OK, [strmodel.S(("msg", n))]), lambda s: s.add_eff(("recv", n))), (bv.M.NOT(okv), Enum(models.ERR, [Opaque("closed")]))]

    def m_write_all(ip_, st, fr, t, args):
        st.add_eff(("write_all", strmodel.term_of(ip_, st, args[1])))
        return Enum(models.OK, [UNIT])

    def m_flush(ip_, st, fr, t, args):
        st.add_eff(("flush",))
        return Enum(models.OK, [UNIT])

    def m_misc(ip_, st, fr, t, args):
        return ip_.opaque_of_type(t["dest"]["ty"], "io")
    ip.models["std::sync::mpsc::Receiver::<T>::recv"] = m_recv
    ip.pattern_models.insert(0, (lambda p, f: "BufWriter" in p or "TcpStream" in p, m_misc))
    ip.pattern_models.insert(0, (lambda p, f: p.endswith("Write>::write_all"), m_write_all))
    ip.pattern_models.insert(0, (lambda p, f: p.endswith("Write>::flush"), m_flush))
    Mx = bv.M

    # ---- strings built piecewise (String::new + push / push_str in a loop over the message): a builder is the
    # term ("build", base, segments); a segment is ("alts", ((guard, bytes), ...)) or ("term", t)
    def utf8_alts(c):
        """UTF-8 encoding of a 32-bit code point as guarded byte sequences"""
        c = tuple(c) + (0,) * (32 - len(c))
        lt = lambda k: bv.ult(c, bv.const(k, 32))   # noqa: E731
        b = lambda bits: tuple(bits)                 # noqa: E731
        one = (lt(0x80), (b(c[0:7] + (0,)),))
        two = (Mx.AND(Mx.NOT(lt(0x80)), lt(0x800)), (b(c[6:11] + (0, 1, 1)), b(c[0:6] + (0, 1))))
        three = (Mx.AND(Mx.NOT(lt(0x800)), lt(0x10000)), (b(c[12:16] + (0, 1, 1, 1)), b(c[6:12] + (0, 1)), b(c[0:6] + (0, 1))))
        four = (Mx.NOT(lt(0x10000)), (b(c[18:21] + (0, 1, 1, 1, 1)), b(c[12:18] + (0, 1)), b(c[6:12] + (0, 1)), b(c[0:6] + (0, 1))))
        return (one, two, three, four)

    def const_seg(text):
        return ("alts", ((1, tuple(bv.const(x, 8) for x in text.encode("utf-8"))),))

    def builder_of(ip_, st, ref):
        v = strmodel.val_of(ip_, st, ref)
        tm = v.data if isinstance(v, Opaque) and v.tag == "str" else None
        if isinstance(tm, tuple) and tm and tm[0] == "build":
            return tm
        if tm is not None:
            return ("build", tm, ())
        return None

    def append(ip_, st, ref, seg):
        bt = builder_of(ip_, st, ref)
        if bt is None or not isinstance(ref, Ref):
            st.tag("unknown-callee")
            return UNIT
        ip_.write_loc(st, ref.root, ref.path, strmodel.S(("build", bt[1], bt[2] + (seg,))))
        return UNIT

    def m_string_new(ip_, st, fr, t, args):
        return strmodel.S(("build", "", ()))

    def m_push_str(ip_, st, fr, t, args):
        tm = strmodel.term_of(ip_, st, args[1])
        return append(ip_, st, args[0], const_seg(tm) if isinstance(tm, str) else ("term", tm))

    def m_push(ip_, st, fr, t, args):
        if not isinstance(args[1], Int):
            st.tag("unknown-callee")
            return UNIT
        return append(ip_, st, args[0], ("alts", utf8_alts(args[1].bits)))

    def m_string_len(ip_, st, fr, t, args):
        tm = strmodel.term_of(ip_, st, args[0])
        return Int(strmodel.len_var(("len", tm)))

    def m_elems(kind):
        def f(ip_, st, fr, t, args):
            return Opaque("eliter", (kind, strmodel.term_of(ip_, st, args[0])))
        return f

    def m_el_iter(ip_, st, fr, t, args):
        return args[0] if isinstance(args[0], Opaque) and args[0].tag == "eliter" else None

    def m_el_next(ip_, st, fr, t, args):
        it = strmodel.val_of(ip_, st, args[0])
        if not (isinstance(it, Opaque) and it.tag == "eliter"):
            return None
        kind, src = it.data
        k = st.count("el")
        if kind == "bytes":
            e = bv.data_bv("el%d" % k, 8)
            valid = 1
        else:
            e = bv.data_bv("el%d" % k, 21) + (0,) * 11
            valid = Mx.AND(bv.ult(e, bv.const(0x110000, 32)), Mx.NOT(Mx.AND(bv.ule(bv.const(0xD800, 32), e), bv.ule(e, bv.const(0xDFFF, 32)))))
        item = Int(e)
        hook_ref = None
        if "slice::Iter<" in (t["callee"].get("full") or ""):
            # an iterator over a byte slice yields references
            root_ = ("elref", k)
            item = Ref(root_, ())

            def hook_ref(s, root_=root_, e=e):
                s.mem[root_] = Int(e)

        def some_hook(s, e=e, kind=kind, src=src, hook_ref=hook_ref):
            if hook_ref:
                hook_ref(s)
            s.add_eff(("el", kind, src, e))
        return [(valid, Enum(models.SOME, [item]), some_hook),
                (None, Enum(models.NONE, []), lambda s, kind=kind, src=src: s.add_eff(("el-done", kind, src)))]

    def m_bytes_iter(ip_, st, fr, t, args):
        # iter() / into_iter() on the byte slice of a string
        v = strmodel.val_of(ip_, st, args[0])
        tm = v.data if isinstance(v, Opaque) and v.tag == "str" else None
        if isinstance(tm, tuple) and tm and tm[0] == "bytes":
            return Opaque("eliter", ("bytes", tm[1]))
        if isinstance(args[0], Opaque) and args[0].tag == "eliter":
            return args[0]
        return None

    def m_str_as_bytes(ip_, st, fr, t, args):
        tm = strmodel.term_of(ip_, st, args[0])
        return strmodel.S(("bytes", tm)) if tm is not None else None

    def m_vec_new(ip_, st, fr, t, args):
        rt = ip_.types[t["dest"]["ty"]]
        et = ip_.types[rt["args"][0]] if rt.get("args") else {}
        if et.get("k") == "int" and et.get("bits") == 8:
            return strmodel.S(("build", "", ()))      # a byte buffer that is filled piecewise: same builder as a String
        return None

    def m_vec_push_byte(ip_, st, fr, t, args):
        bt = builder_of(ip_, st, args[0])
        if bt is None or not isinstance(args[1], Int) or len(args[1].bits) != 8:
            return None
        return append(ip_, st, args[0], ("alts", ((1, (tuple(args[1].bits),)),)))

    def m_extend_from_slice(ip_, st, fr, t, args):
        bt = builder_of(ip_, st, args[0])
        if bt is None:
            return None
        v = strmodel.val_of(ip_, st, args[1])
        # a constant byte string literal (b"\\\\") reaches us as an array / slice of constant bytes
        if isinstance(v, Agg) and all(isinstance(x, Int) and bv.to_int(x.bits) is not None for x in v.fields):
            return append(ip_, st, args[0], ("alts", ((1, tuple(tuple(x.bits) for x in v.fields)),)))
        tm = v.data if isinstance(v, Opaque) and v.tag == "str" else None
        if isinstance(tm, str):
            return append(ip_, st, args[0], const_seg(tm))
        if isinstance(tm, tuple) and tm and tm[0] == "bytes" and isinstance(tm[1], str):
            return append(ip_, st, args[0], const_seg(tm[1]))
        return None
    ip.models["std::string::String::new"] = m_string_new
    ip.models["std::string::String::with_capacity"] = m_string_new
    ip.models["std::string::String::push_str"] = m_push_str
    ip.models["std::string::String::push"] = m_push
    ip.models["std::string::String::len"] = m_string_len
    ip.models["core::str::<impl str>::len"] = m_string_len
    ip.models["core::str::<impl str>::bytes"] = m_elems("bytes")
    ip.models["core::str::<impl str>::chars"] = m_elems("chars")
    ip.models["<I as std::iter::IntoIterator>::into_iter"] = m_el_iter
    ip.models["<std::str::Bytes<'_> as std::iter::Iterator>::next"] = m_el_next
    ip.models["<std::slice::Iter<'a, T> as std::iter::Iterator>::next"] = m_el_next
    ip.models["core::slice::<impl [T]>::iter"] = m_bytes_iter
    ip.models["core::slice::iter::<impl std::iter::IntoIterator for &'a [T]>::into_iter"] = m_bytes_iter
    ip.models["core::str::<impl str>::as_bytes"] = m_str_as_bytes
    ip.models["std::string::String::as_bytes"] = m_str_as_bytes
    ip.models["std::vec::Vec::<T>::new"] = m_vec_new
    ip.models["std::vec::Vec::<T>::with_capacity"] = m_vec_new
    ip.models["std::vec::Vec::<T, A>::push"] = m_vec_push_byte
    ip.models["std::vec::Vec::<T, A>::extend_from_slice"] = m_extend_from_slice
    ip.models["<std::str::Chars<'a> as std::iter::Iterator>::next"] = m_el_next

    def at_header(ip_, st, fr, n):
        for k_ in [k_ for k_ in st.ctr if isinstance(k_, tuple) and k_[0] == "iv"]:
            st.ctr[k_] = 0      # inner-loop visit counts are per message
        return "stop" if n >= 2 else "continue"
    ip.block_hooks[(key, header)] = at_header

    def mk_inner(h):
        def hook(ip_, st, fr, n_):
            n = st.ctr.get(("iv", h), 0)
            st.ctr[("iv", h)] = n + 1
            roots = [r for r, v in st.mem.items() if r[0] == "f" and r[1] == fr.fid and isinstance(v, Opaque) and v.tag == "str"
                     and isinstance(v.data, tuple) and v.data and v.data[0] == "build"]
            if n == 0:
                for r in sorted(roots, key=str):
                    st.add_eff(("inner-enter", h, r[2], st.mem[r].data))
                    st.mem[r] = strmodel.S(("build", ("prefix", h, r[2]), ()))
                return "continue"
            for r in sorted(roots, key=str):
                st.add_eff(("inner-back", h, r[2], st.mem[r].data))
            st.add_eff(("inner-stop", h))
            return "stop"
        return hook
    inner = [h for h in loops if h != header and h in loops[header]]
    for h in inner:
        ip.block_hooks[(key, h)] = mk_inner(h)
    # loops inside helper functions the worker calls (e.g. a separate escape / framing function)
    cgraph = cfgmod.CallGraph(facts)
    for bk in sorted(k_ for k_ in cgraph.reachable(key) if k_ in facts.bodies and k_ != key):
        for h_ in cfgmod.Cfg(facts.bodies[bk]).loops():
            hid = "%s/%d" % (bk.split("::")[-1], h_)
            ip.block_hooks[(bk, h_)] = mk_inner(hid)
            ip.hooks_any_depth = True
    outs = ip.run_all(key, [Agg([Opaque("writer"), Opaque("rx")])], {})
    if ip.unknown_callees:
        res.errors.append("unmodelled callees in the send worker: %r" % ip.unknown_callees)

    def closed(tm):
        """terms over the closed vocabulary msg / const / replace / concat / bytes (decidable by comparison)"""
        if isinstance(tm, str):
            return True
        if not isinstance(tm, tuple) or not tm:
            return False
        if tm[0] == "msg":
            return True
        if tm[0] in ("replace", "concat", "bytes"):
            return all(closed(x) or isinstance(x, int) for x in tm[1:])
        return False

    def flat(segs, cond):
        """all (condition, byte list) combinations of a segment tuple; None when a segment is not bytes"""
        acc = [(cond, [])]
        for sg in segs:
            if sg[0] != "alts":
                return None
            nacc = []
            for c0, bs in acc:
                for g_, bytes_ in sg[1]:
                    c1 = Mx.AND(c0, g_)
                    if c1 != 0:
                        nacc.append((c1, bs + list(bytes_)))
            acc = nacc
        return acc

    def expected_for(kind, e):
        is_bs = bv.eq(e, bv.const(0x5C, len(e)))
        is_nl = bv.eq(e, bv.const(0x0A, len(e)))
        other = Mx.AND(Mx.NOT(is_bs), Mx.NOT(is_nl))
        alts = [(is_bs, [bv.const(0x5C, 8), bv.const(0x5C, 8)]), (is_nl, [bv.const(0x5C, 8), bv.const(0x6E, 8)])]
        if kind == "bytes":
            alts.append((other, [tuple(e)]))
        else:
            for g_, bs in utf8_alts(e):
                alts.append((Mx.AND(other, g_), list(bs)))
        return alts
    # per-element step of every piecewise-built text (inner loops)
    loop_ok = {}       # (h, local) -> {"base":..., "src":..., "step": bool, "covered": bdd, "kind":...}
    for o in outs:
        effs = list(o.state.eff)
        kinds = [e[0] for e in effs]
        if "inner-enter" not in kinds:
            continue
        i0 = max(i for i, e in enumerate(effs) if e[0] == "inner-enter")
        recvs = [e[1] for e in effs[:i0] if e[0] == "recv"]
        nmsg = recvs[-1] if recvs else None
        lastrecv = max([i for i, e in enumerate(effs[:i0]) if e[0] == "recv"] or [0])
        ent = [(e[0], e[1], (e[2], nmsg), e[3]) for e in effs[lastrecv:] if e[0] == "inner-enter"]
        after = effs[i0 + 1:]
        els = [e for e in after if e[0] == "el"]
        for e in ent:
            rec = loop_ok.setdefault((e[1], e[2]), {"base_ok": True, "src": set(), "step_ok": True, "covered": 0, "kind": None, "why": None, "truncated": False})
            if e[3] != ("build", "", ()):
                rec["base_ok"] = False
        if "inner-stop" in kinds:
            backs = [(e[0], e[1], (e[2], nmsg), e[3]) for e in after if e[0] == "inner-back"]
            if len(els) != 1:
                for e in ent:
                    loop_ok[(e[1], e[2])]["step_ok"] = False
                    loop_ok[(e[1], e[2])]["why"] = "an iteration consumes %d elements" % len(els)
                continue
            kind, src, ebits = els[0][1], els[0][2], els[0][3]
            for bk in backs:
                rec = loop_ok.get((bk[1], bk[2]))
                if rec is None:
                    continue
                rec["src"].add((kind, src))
                rec["kind"] = kind
                rec["ebits"] = ebits
                tm = bk[3]
                if not (isinstance(tm, tuple) and tm[0] == "build" and tm[1] == ("prefix", bk[1], bk[2][0])):
                    rec["step_ok"] = False
                    rec["why"] = "the text is rebuilt, not appended to"
                    continue
                got = flat(tm[2], o.state.pc)
                if got is None:
                    rec["step_ok"] = False
                    rec["why"] = "an appended piece is not a byte sequence the model follows"
                    continue
                for c0, bs in got:
                    for g_, ex in expected_for(kind, ebits):
                        c1 = Mx.AND(c0, g_)
                        if c1 == 0:
                            continue
                        bad = c1 if len(bs) != len(ex) else 0
                        if not bad:
                            for x, y in zip(bs, ex):
                                d = differs(tuple(x), tuple(y), c1)
                                if d != 0:
                                    bad = d
                                    break
                        res.ob(bad == 0)
                        if bad != 0:
                            rec["step_ok"] = False
                            w = witness(bad) or {}
                            rec["why"] = "for the element %s the bytes appended are not the escape of that element" % (w.get("el0") or w)
                rec["covered"] = Mx.OR(rec["covered"], o.state.pc)
        else:
            # a trace that leaves the inner loop: only because the iterator is exhausted
            if els:
                for e in ent:
                    loop_ok[(e[1], e[2])]["truncated"] = True
    nseen = 0
    for o in outs:
        effs = list(o.state.eff)
        for idx, e in enumerate(effs):
            if e[0] != "recv":
                continue
            n = e[1]
            nxt = [i for i, x in enumerate(effs[idx + 1:]) if x[0] == "recv"]
            seg = effs[idx + 1: idx + 1 + nxt[0]] if nxt else effs[idx + 1:]
            if not nxt and o.kind not in ("stop",):
                continue
            if any(x[0] == "inner-stop" for x in seg):
                continue     # cut inside the escape loop: accounted for above
            io = [x for x in seg if x[0] in ("write_all", "flush")]
            expect_term = ("bytes", ("concat", ("replace", ("replace", ("msg", n), 92, "\\\\"), 10, "\\n"), "\n"))
            okk = io == [("write_all", expect_term), ("flush",)]
            why = None
            if not okk and len(io) == 2 and io[0][0] == "write_all" and io[1] == ("flush",):
                # the same text built as  <term>  followed by pushed constant pieces (s.push('\n'), push_str("...")): a concatenation
                def norm(tm_):
                    if isinstance(tm_, tuple) and len(tm_) == 2 and tm_[0] == "bytes":
                        return ("bytes", norm(tm_[1]))
                    if isinstance(tm_, tuple) and len(tm_) == 3 and tm_[0] == "build" and not (isinstance(tm_[1], tuple) and tm_[1] and tm_[1][0] == "prefix"):
                        base_ = norm(tm_[1])
                        if not tm_[2]:
                            return base_
                        tail_ = flat(tm_[2], o.state.pc)
                        if tail_ is None or len(tail_) != 1 or any(bv.to_int(x) is None for x in tail_[0][1]):
                            return tm_
                        try:
                            txt = bytes(bv.to_int(x) for x in tail_[0][1]).decode("utf-8")
                        except UnicodeDecodeError:
                            return tm_
                        if base_ == "":
                            return txt
                        if isinstance(base_, tuple) and len(base_) == 3 and base_[0] == "concat" and isinstance(base_[2], str):
                            return ("concat", base_[1], base_[2] + txt)
                        return ("concat", base_, txt)
                    return tm_
                okk = [("write_all", norm(io[0][1])), io[1]] == [("write_all", expect_term), ("flush",)]
            if not okk and len(io) == 2 and io[0][0] == "write_all" and io[1] == ("flush",):
                tm = io[0][1]
                # piecewise-built text: prefix of a verified escape loop over this message, then the terminator
                if isinstance(tm, tuple) and tm[0] == "bytes" and isinstance(tm[1], tuple) and tm[1][0] == "build" and isinstance(tm[1][1], tuple) and tm[1][1][0] == "prefix":
                    hkey = (tm[1][1][1], (tm[1][1][2], n))
                    rec = loop_ok.get(hkey)
                    tail = flat(tm[1][2], o.state.pc)
                    if rec is None or tail is None:
                        why = "undecided"
                    else:
                        kind = rec["kind"]
                        if kind == "bytes":
                            full_cover = 1
                        else:
                            e0 = rec["ebits"]
                            full_cover = Mx.AND(bv.ult(e0, bv.const(0x110000, 32)), Mx.NOT(Mx.AND(bv.ule(bv.const(0xD800, 32), e0), bv.ule(e0, bv.const(0xDFFF, 32))))) if e0 else 0
                        aux = set(r for r in Mx.support(rec["covered"]) if not (Mx.names.get(r, "").startswith("el")))
                        cov = Mx.exists(rec["covered"], aux) if rec["covered"] not in (0, 1) else rec["covered"]
                        problems = []
                        if not rec["base_ok"]:
                            problems.append("the text does not start empty")
                        if rec["src"] != {(kind, ("msg", n))}:
                            problems.append("the loop does not run over the bytes / characters of the message (%r)" % sorted(rec["src"], key=str))
                        if not rec["step_ok"]:
                            problems.append(rec["why"] or "an element is not escaped correctly")
                        if rec["truncated"]:
                            problems.append("the loop can be left before the message is exhausted")
                        if Mx.AND(full_cover, Mx.NOT(cov)) != 0:
                            problems.append("some element values do not reach the end of the loop body")
                        if not (len(tail) == 1 and [bv.to_int(x) for x in tail[0][1]] == [0x0A]):
                            problems.append("the terminator appended after the loop is not a single newline")
                        okk = not problems
                        why = "; ".join(problems) if problems else None
                elif not closed(tm):
                    why = "undecided"
            res.ob(okk)
            nseen += 1
            if not okk:
                if why == "undecided":
                    res.errors.append("send worker: the text written is built in a way this rule does not follow (%r): not decidable" % (str(io[0][1])[:120],))
                elif why:
                    res.finding("framing|send", "the text written for a message is not escape(message) + newline: %s" % why)
                else:
                    res.finding("framing|send", "the text written for a message is %r; expected one write of escape-backslash-then-newline + terminator, then one flush" % (io[:3],))
            res.evaluations += 1
    res.ob(nseen >= 2)
    if nseen < 2:
        res.errors.append("send worker: fewer than two message transmissions analysed")
    res.inventory["send_worker_messages_followed"] = nseen
    res.inventory["send_worker_escape_loops"] = {"%s/%s" % (k[0], k[1]): {"base_ok": v["base_ok"], "step_ok": v["step_ok"], "kind": v["kind"]} for k, v in loop_ok.items()}
    # ---- structural facts of the remaining plumbing (library calls on one def-use chain)

    def calls_of(suffix):
        k = [x for x in facts.bodies if x.endswith(suffix)]
        if len(k) != 1:
            res.errors.append("anchor %s: %r" % (suffix, k))
            return []
        return [(p, t) for i, p, t in cfgmod.Cfg(facts.bodies[k[0]]).calls()]
    # The three plumbing facts are decided on call chains.  A recognised-good shape passes, a recognised-bad feature is a
    # finding, any other shape is "not decidable" (checker error) - a correct rewrite must never alarm.
    # ---- arrival order across two acquisition points: a line obtained from the channel by a SECOND consumer (a blocking wait, a peek)
    # in one iteration of run and appended BEHIND the batch drained in the next iteration is applied after lines that arrived later
    try:
        k_run_ = facts.body("cpu::Cpu::run")["key"]
        b_run_ = facts.bodies[k_run_]
        g_run_ = cfgmod.Cfg(b_run_)
        cg2_ = cfgmod.CallGraph(facts)
        k_pop_ = [x for x in facts.bodies if x.endswith("socket::Socket::pop_messages")]

        def consumes_channel(key_):
            for k2_ in [key_] + sorted(cg2_.reachable(key_)):
                if k2_ in facts.bodies:
                    for i_, p_, t_ in cfgmod.Cfg(facts.bodies[k2_]).calls():
                        if "Receiver" in p_ and p_.split("::")[-1] in ("recv", "recv_timeout", "recv_deadline", "try_recv", "iter", "try_iter"):
                            return True
            return False
        run_calls_ = list(g_run_.calls())
        acq_ = [(i_, p_, t_) for i_, p_, t_ in run_calls_ if p_ in facts.bodies and p_ not in k_pop_ and consumes_channel(p_)]
        pops_ = [(i_, p_, t_) for i_, p_, t_ in run_calls_ if p_ in k_pop_]
        if acq_ and pops_:
            # locals derived from the second consumer / from the drained batch (flow-insensitive closure over the body)
            def closure(seed):
                tainted = set(seed)
                changed = True
                while changed:
                    changed = False
                    for bl_ in b_run_["blocks"]:
                        for s_ in bl_["st"]:
                            if s_["k"] != "assign":
                                continue
                            r_ = s_["r"]
                            srcs = [r_.get("o"), r_.get("a"), r_.get("b")] + list(r_.get("ops") or [])
                            srcl = [o_["p"]["l"] for o_ in srcs if isinstance(o_, dict) and o_.get("k") in ("copy", "move")]
                            if r_["k"] in ("ref", "rawptr"):
                                srcl.append(r_["p"]["l"])
                            if any(l_ in tainted for l_ in srcl) and s_["p"]["l"] not in tainted:
                                tainted.add(s_["p"]["l"])
                                changed = True
                        t_ = bl_["term"]
                        if t_["k"] == "call" and any(a_.get("k") in ("copy", "move") and a_["p"]["l"] in tainted for a_ in t_["args"]) and t_["dest"]["l"] not in tainted:
                            tainted.add(t_["dest"]["l"])
                            changed = True
                return tainted
            from_acq = closure([t_["dest"]["l"] for i_, p_, t_ in acq_])
            from_pop = closure([t_["dest"]["l"] for i_, p_, t_ in pops_])
            loops_ = g_run_.loops()
            hdr_ = max(loops_, key=lambda h_: len(loops_[h_])) if loops_ else None
            for i_, p_, t_ in run_calls_:
                if p_.split("::")[-1] in ("extend", "push", "push_back", "append", "extend_from_slice") and len(t_["args"]) >= 2:
                    a0_, a1_ = t_["args"][0], t_["args"][1]
                    if a0_.get("k") in ("copy", "move") and a0_["p"]["l"] in from_pop and a1_.get("k") in ("copy", "move") and a1_["p"]["l"] in from_acq:
                        # the appended line was obtained in an EARLIER iteration iff the second consumer runs after this point of the iteration
                        later = any(g_run_.reaches(i_, ia_, avoid=[hdr_] if hdr_ is not None else ()) for ia_, pa_, ta_ in acq_)
                        res.ob(not later)
                        if later:
                            res.finding("batch|earlier-line-appended-behind", "a line taken from the channel by %s in one iteration is appended BEHIND the batch that pop_messages drains in the "
                                        "next iteration: it is applied after lines that arrived later (arrival order is not kept)" % acq_[0][1].split("::")[-1])
            res.inventory["second_channel_consumers_in_run"] = [p_.split("::")[-1] for i_, p_, t_ in acq_]
    except Exception as e_:      # noqa
        res.errors.append("arrival-order rule: %s" % str(e_)[:200])
    pm = [p for p, t in calls_of("socket::Socket::pop_messages")]
    last = [p.split("::")[-1] for p in pm]
    good = (any(p.endswith("Receiver::<T>::try_iter") for p in pm) and any(p.endswith("Iterator::collect") for p in pm)) or \
           ("try_recv" in last and "push" in last)
    blocking = [n for n in last if n in ("recv", "recv_timeout", "recv_deadline")] + [n for p, n in zip(pm, last) if n == "iter" and "Receiver" in p]
    lossy = [n for n in last if n in ("take", "nth", "skip", "filter", "step_by", "last", "truncate", "pop", "dedup", "retain")]
    okk = good and not blocking and not lossy
    res.ob(okk)
    if blocking:
        res.finding("plumbing|pop_messages", "pop_messages blocks on the channel (%r): the emulator would stall until the client sends a line" % blocking)
    elif lossy:
        res.finding("plumbing|pop_messages", "pop_messages drops or reorders queued lines (%r)" % lossy)
    elif not good:
        res.errors.append("pop_messages: the way the channel is drained is not one this rule recognises (calls %r): not decidable" % last)
    sm = calls_of("socket::Socket::send_message")
    names_sm = [p.split("::")[-1] for p, t in sm if "fmt" not in p and "Try" not in p and "FromResidual" not in p and "from_residual" not in p]
    nsend = names_sm.count("send")
    okk = names_sm[:2] == ["clone", "send"] and nsend == 1
    res.ob(okk)
    if nsend != 1:
        res.finding("plumbing|send_message", "Socket::send_message hands its argument to the channel %d times (calls %r)" % (nsend, names_sm))
    elif not okk:
        alters = [n for n in names_sm if n in ("replace", "trim", "trim_end", "to_uppercase", "to_lowercase", "truncate", "pop", "push", "push_str", "remove", "split_off")]
        if alters:
            res.finding("plumbing|send_message", "Socket::send_message alters the text before queueing it (%r)" % alters)
        else:
            res.errors.append("send_message: call chain %r is not one this rule recognises: not decidable" % names_sm)
    rw = [k for k in facts.bodies if k.endswith("start_receive_worker::{closure#0}")]
    if len(rw) == 1:
        # the loop that reads the lines may live in a helper the worker calls: the rules apply to the body that calls read_line
        cg_ = cfgmod.CallGraph(facts)
        holders = [k for k in sorted(cg_.reachable(rw[0])) if k in facts.bodies and any(p.endswith("read_line") for i, p, t in cfgmod.Cfg(facts.bodies[k]).calls())]
        if len(holders) == 1:
            rw = holders
        res.inventory["receive_loop_body"] = rw[0]
        calls = [(p, t) for i, p, t in cfgmod.Cfg(facts.bodies[rw[0]]).calls()]
        # small helpers of the crate called from the loop (e.g. a `strip_terminator(&str) -> &str`) are looked through for the name rule
        owner_ = {}
        for k_ in sorted(cg_.reachable(rw[0])):
            if k_ != rw[0] and k_ in facts.bodies and not k_.endswith("{closure#0}") and len(facts.bodies[k_]["blocks"]) <= 40:
                extra_ = [(p_, t_) for i_, p_, t_ in cfgmod.Cfg(facts.bodies[k_]).calls()]
                for p_, t_ in extra_:
                    owner_[id(t_)] = k_
                calls = [(p_, t_) for p_, t_ in calls if p_ != k_] + extra_
        names = [p.split("::")[-1] for p, t in calls]
        rep = [t for p, t in calls if p.endswith("replace")]
        gg = cfgmod.Cfg(facts.bodies[rw[0]])
        ggr = cfgmod.Cfg(facts.bodies[owner_[id(rep[0])]]) if rep and id(rep[0]) in owner_ else gg
        r1 = ggr.roots(rep[0]["args"][1]) if rep else set()
        r2 = ggr.roots(rep[0]["args"][2]) if rep else set()
        strip_ok = (len(rep) == 1 and ("const", "10") in r1 and ("const", "") in r2) or any(n in names for n in ("trim_end_matches", "strip_suffix", "trim_end"))
        resets_named = any(n in names for n in ("clear", "take", "drain", "split_off")) or names.count("new") > 1
        okk = "read_line" in names and names.count("send") == 1 and strip_ok and resets_named and len(rep) <= 1
        # calls that neither transform nor consume the text (everything else might strip / rewrite it in a way this rule does not follow)
        NEUTRAL = ("read_line", "send", "try_send", "clone", "to_string", "to_owned", "to_string", "take", "deref", "deref_mut", "as_str", "as_mut_str", "clear", "new", "unwrap", "expect", "kind", "ne", "eq",
                   "_eprint", "_print", "new_display", "new_debug", "is_err", "is_ok", "is_empty", "len", "into", "from", "borrow", "as_ref", "drop", "with_capacity", "new_const", "new_v1", "none")
        other = [n for n, (p_, t_) in zip(names, calls) if n not in NEUTRAL and "fmt::" not in p_ and "Arguments" not in p_ and "Try" not in p_ and "from_residual" not in n]
        res.ob(okk or bool(other))
        if not okk:
            if "read_line" in names and names.count("send") == 0:
                res.finding("plumbing|receive-worker", "the receive worker never forwards a line (calls %r)" % names)
            elif "read_line" in names and not strip_ok and not other:
                res.finding("plumbing|receive-worker", "the receive worker forwards the line with its terminator (nothing between read_line and send can strip the newline; calls %r)" % names)
            elif len(rep) > 1 or (rep and not strip_ok):
                res.finding("plumbing|receive-worker", "the receive worker rewrites the line beyond stripping the newline (calls %r)" % names)
            elif "read_line" not in names or not strip_ok:
                res.errors.append("receive worker: the way the line is read / stripped (%r) is not one this rule recognises: not decidable" % (other or names))
            # (duplicates and stale buffers are decided by the path rules below)
        # path rules over the worker's CFG (flow-sensitive; the name-set rule above cannot see a path that bypasses a call):
        # between one successful read_line and the next, on EVERY path, (i) the line buffer read_line appends to is reset,
        # (ii) the line is handed to the channel at most once; (iii) a path that does not hand it on at all is accepted only
        # when it is taken for an empty line (which the dispatcher ignores anyway), otherwise it is not decidable here
        cl = list(gg.calls())
        rl = [(i, t) for i, p, t in cl if p.endswith("read_line")]
        for i_r, t_r in rl:
            buf = set(r_ for r_ in gg.roots(t_r["args"][1]) if r_[0] in ("call", "place", "expr"))
            if not buf:
                res.errors.append("receive worker: the buffer passed to read_line is not identified: not decidable")
                continue
            resets = set()
            for i, p, t in cl:
                nm = p.split("::")[-1]
                if nm in ("clear", "take", "drain", "truncate", "split_off") and t["args"] and (set(gg.roots(t["args"][0])) & buf):
                    resets.add(i)
            for r_ in buf:
                if r_[0] == "call" and r_[1].split("::")[-1] in ("new", "with_capacity", "default") and r_[2] in gg.loops().get(max(gg.loops(), key=lambda h: len(gg.loops()[h])), ()):
                    resets.add(r_[2])      # the buffer is created afresh inside the loop
            stale = gg.reaches(i_r, i_r, avoid=resets)
            # a function of the crate that is handed the buffer may reset it: then the path rule cannot tell
            helpers_ = [p for i, p, t in cl if p in facts.bodies and any(set(gg.roots(a_)) & buf for a_ in t["args"])]
            if stale and helpers_:
                res.errors.append("receive worker: the line buffer is passed to %s, which may reset it: not decidable" % helpers_[0].split("::")[-1])
                stale = False
            res.ob(not stale)
            if stale:
                res.finding("plumbing|receive-worker|stale-buffer", "the receive worker can read the next line without resetting its line buffer on some path (read_line appends): "
                            "the following line arrives glued to the previous text and is not recognised")
            sends = [i for i, p, t in cl if p.split("::")[-1] in ("send", "try_send") and "Sender" in p]
            twice = any(gg.reaches(s1, s2, avoid=[i_r]) for s1 in sends for s2 in sends)
            res.ob(not twice)
            if twice:
                res.finding("plumbing|receive-worker|forwarded-twice", "the receive worker can hand one line to the channel more than once before reading the next")
            if sends and gg.reaches(i_r, i_r, avoid=sends):
                guards = [p.split("::")[-1] for i, p, t in cl if p.split("::")[-1] in ("is_empty", "len")]
                if guards:
                    res.ob(True)
                    res.inventory["receive_worker_skips"] = "empty lines are not forwarded (%s)" % ",".join(guards)
                else:
                    res.errors.append("receive worker: some path reads the next line without forwarding the current one and the condition is not an emptiness test: not decidable")
        res.inventory["receive_worker_read_sites"] = len(rl)
    else:
        res.errors.append("anchor receive worker: %r" % rw)


def run(ctx, res):
    facts = ctx["facts"]
    res.explanation = __doc__.split("\n\n", 1)[1].replace("\n", " ")
    res.rule = "abstract interpretation of the message loop of run, parse_u8/parse_ioport and the send worker over abstract strings (terms) + call-chain facts of the channel plumbing"
    res.trusted = ["rustc MIR", "h8facts", "interp.py/models.py/strmodel.py", "bdd.py", "std library semantics of split/replace/mpsc (FIFO)"]
    res.assumptions = ["strings are uninterpreted terms: equality with a keyword is a free boolean, a string equals at most one keyword",
                       "the number of ':'-separated fields is a free integer >= 1", "two lines per batch are followed (the loop body is the same for every line)"]
    res.not_decided = ["TCP behaviour and thread scheduling", "the unescape side (not in the repository)"]
    part_a(facts, res)
    # the dispatch rules read the code's string comparisons through terms of the form field k of (line split at ':'); when the
    # code compares something else (a term this rule does not follow), the dispatch verdicts are not decidable - never findings
    odd = []
    for (term, text) in strmodel.eq_vars():
        okt = isinstance(term, tuple) and len(term) == 3 and term[0] == "field" and isinstance(term[1], tuple) and term[1][0] == "split" \
            and isinstance(term[1][1], tuple) and term[1][1][:1] == ("msg",) and term[1][2] == 58
        if not okt:
            odd.append((term, text))
    if odd:
        moved = [f_ for f_ in res.findings if f_["key"].startswith("dispatch|")]
        res.findings = [f_ for f_ in res.findings if not f_["key"].startswith("dispatch|")]
        res.errors.append("control lines are compared through terms this rule does not follow (%r ...): the dispatch rules are not decidable%s"
                          % (odd[0], (" (suppressed: %s)" % ", ".join(f_["key"] for f_ in moved[:4])) if moved else ""))
    part_b(facts, res)
    part_c(facts, res)
    res.distinct = 3
    res.floor("control-line traces", res.evaluations, 10)
