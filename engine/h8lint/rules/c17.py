"""C17 - the 8-bit timer (channel 0).

(1) TCR decoding: update_tcr is analysed with a symbolic TCR value and symbolic previous
    state: bits 7/6/5 -> CMIB/CMIA/OVI enables, bits 4-3 -> clear source, CKS 1/2/3 ->
    divisor 8/64/8192, CKS 0 -> stopped; phase bound: after the write the accumulated
    states are below the selected divisor (no bunching at a clock change);
(2) accumulation: update_timer8_0 is analysed from its entry to the head of the tick
    loop for every divisor the field can hold (who-writes-field: {0,8,64,8192}) with a
    symbolic residual and charge: ticks = (residual + states) div divisor, new residual =
    (residual + states) mod divisor, nothing happens when no clock is selected;
(3) one tick: the loop body is analysed once with a generalised (symbolic, non-zero)
    remaining count, symbolic TCNT/TCORA/TCORB/TCSR, all enable combinations and every
    clear source: TCNT' = TCNT+1 (cleared only by the selected compare match), TCSR' =
    TCSR | CMFA/CMFB/OVF exactly on match / wrap (flags are sticky), one request 36/37/39
    per event iff enabled, remaining count decreases by exactly one, the loop is left
    exactly when it reaches zero, only TCNT0 and TCSR0 are stored;
(4) the update path never re-enters Bus::write (the RefCell of the module manager is
    mutably borrowed by the caller)."""
import bv
import cfg as cfgmod
import isacheck
import models
from busmodel import BusModel, BUS_ROOT, module_models
from interp import Agg, Enum, Int, Interp, Opaque, Ref, SymArr, UNIT
from rules import c13

IO2_START = 0xFFFF20
REG = {"TCR": 0xFFFF80, "TCSR": 0xFFFF82, "TCORA": 0xFFFF84, "TCORB": 0xFFFF86, "TCNT": 0xFFFF88}
DIVISORS = [0, 8, 64, 8192]
CLEAR = ["Forbidden", "CompareA", "CompareInputB", "InputB"]
TIMER_ROOT = ("h", "timer")


def witness(c):
    a = bv.M.sat_one(c)
    return isacheck.group_witness(bv.M.describe_assign(a)) if a is not None else None


def differs(a, b, care):
    Mx = bv.M
    if len(a) != len(b):
        return care
    for x, y in zip(a, b):
        if x != y:
            d = Mx.AND(Mx.XOR(x, y), care)
            if d != 0:
                return d
    return 0


def new_interp(facts):
    bv.reset()
    bm = BusModel(facts)
    ms, pats = models.standard_models()
    ip = Interp(facts, primitives={}, models=ms)
    ip.pattern_models = pats
    c13.time_models(ip)
    module_models(ip)
    k = facts.find("request_interrupt")

    def p_req(ip_, st, fr, t, args):
        st.add_eff(("irq", bv.to_int(args[1].bits) if isinstance(args[1], Int) else None))
        return UNIT
    ip.primitives[k[0]] = p_req
    return bm, ip


def timer_value(facts, fields, **over):
    tt = facts.types[facts.type_by_path["modules::timer8::Timer8_0"]]
    vals = []
    for f in tt["variants"][0]["fields"]:
        n = f["n"]
        if n in over:
            vals.append(over[n])
            continue
        ft = facts.types[f["ty"]]
        if ft["k"] == "bool":
            vals.append(Int(bv.data_bv("t_" + n, 1)))
        elif ft["k"] == "int":
            vals.append(Int(bv.seq_bv("t_" + n, ft["bits"])))
        else:
            vals.append(Opaque("t_" + n))
    return Agg(vals)


def part_tcr(facts, res, fields, fi):
    key = facts.find("update_tcr")
    if len(key) != 1:
        res.errors.append("anchor update_tcr: %r" % key)
        return
    tt = facts.types[facts.type_by_path["modules::timer8::CounterClear"]]
    cnames = [v["n"] for v in tt["variants"]]
    for old_div in DIVISORS:
        for old_clear in range(len(cnames)):
            bm, ip = new_interp(facts)
            Mx = bv.M
            tcr = bv.data_bv("tcr", 8)
            resid = bv.seq_bv("t_state", 16)
            tv = timer_value(facts, fields, prescaler=Int(bv.const(old_div, 16)), is_cleared_by=Enum(old_clear, ()), state=Int(resid))
            outs = ip.run_all(key[0], [Ref(TIMER_ROOT, ()), Int(tcr)], {TIMER_ROOT: tv})
            if ip.unknown_callees:
                res.errors.append("unmodelled callees in update_tcr: %r" % ip.unknown_callees)
            # precondition: the residual is below the old divisor (invariant), any value when stopped
            pre = bv.ult(resid, bv.const(old_div, 16)) if old_div else bv.ult(resid, bv.const(8192, 16))
            cks = tcr[0:3]
            for o in outs:
                st = o.state
                if o.kind == "panic" and any(t in st.tags for t in ("opaque-switch", "opaque-assert", "unknown-callee", "unwrap-opaque")):
                    res.errors.append("imprecise trace in the timer analysis (panic branch): %r" % (st.tags,))
                    continue
                care = Mx.AND(st.pc, pre)
                if care == 0:
                    continue
                if o.kind == "panic":
                    res.ob(False)
                    res.finding("tcr|panic|%s" % o.info.get("kind"), "update_tcr can panic (%s)" % o.info.get("kind"), witness(care))
                    continue
                if any(t in st.tags for t in ("opaque-switch", "opaque-assert", "unknown-callee")):
                    res.errors.append("imprecise trace in update_tcr: %r" % (st.tags,))
                    continue     # an imprecisely followed trace decides nothing
                t = st.mem[TIMER_ROOT]
                res.evaluations += 1
                for fld, bit, what in (("is_allowed_cmib", 7, "CMIEB (bit 7)"), ("is_allowed_cmia", 6, "CMIEA (bit 6)"), ("is_allowed_ovi", 5, "OVIE (bit 5)")):
                    if fld not in fi:
                        # the enables are not kept in the three flags this rule knows: how TCR's enable bits reach the tick is not followed here
                        msg_ = "the timer does not keep the interrupt enable %s as a field: the enable rules are not decidable on this tree" % fld
                        if msg_ not in res.errors:
                            res.errors.append(msg_)
                        continue
                    v = t.fields[fi[fld]]
                    d = differs(v.bits, (tcr[bit],), care) if isinstance(v, Int) else care
                    res.ob(d == 0)
                    if d != 0:
                        res.finding("tcr|enable|%s" % fld, "the %s enable is not TCR %s" % (fld, what), witness(d))
                cl = t.fields[fi["is_cleared_by"]]
                exp = {0: "Forbidden", 1: "CompareA", 2: "CompareInputB", 3: "InputB"}
                for code, nm in exp.items():
                    c = Mx.AND(care, bv.eq(tcr[3:5], bv.const(code, 2)))
                    if c == 0:
                        continue
                    okk = isinstance(cl, Enum) and cnames[cl.variant] == nm
                    res.ob(okk)
                    if not okk:
                        res.finding("tcr|clear-source|%d" % code, "CCLR=%d does not select %s" % (code, nm), witness(c))
                pv = t.fields[fi["prescaler"]]
                sv = t.fields[fi["state"]]
                for code, div in ((0, 0), (1, 8), (2, 64), (3, 8192)):
                    c = Mx.AND(care, bv.eq(cks, bv.const(code, 3)))
                    if c == 0:
                        continue
                    d = differs(pv.bits, bv.const(div, 16), c) if isinstance(pv, Int) else c
                    res.ob(d == 0)
                    if d != 0:
                        res.finding("tcr|divisor|%d" % code, "CKS=%d does not select the internal clock / %d" % (code, div), witness(d))
                    if div:
                        # phase bound and phase preservation modulo the new divisor
                        okb = isinstance(sv, Int) and Mx.AND(c, Mx.NOT(bv.ult(sv.bits, bv.const(div, 16)))) == 0
                        res.ob(okb)
                        if not okb:
                            bad = Mx.AND(c, Mx.NOT(bv.ult(sv.bits, bv.const(div, 16)))) if isinstance(sv, Int) else c
                            res.finding("tcr|phase-bound", "after selecting / %d the accumulated states can be >= the divisor: the next update delivers a burst of ticks" % div, witness(bad))
                        elif isinstance(sv, Int):
                            k = div.bit_length() - 1
                            d = differs(sv.bits[:k], resid[:k], c)
                            res.ob(d == 0)
                            if d != 0:
                                res.finding("tcr|phase-kept", "the phase (accumulated states modulo the new divisor) is not preserved by a TCR write", witness(d))
                if len(res.samples) < 3:
                    res.samples.append({"rule": "update_tcr", "old_divisor": old_div, "old_clear": cnames[old_clear]})


def part_timer(facts, res, fields, fi):
    key = facts.find("update_timer8_0")
    if len(key) != 1:
        res.errors.append("anchor update_timer8_0: %r" % key)
        return
    key = key[0]
    body = facts.bodies[key]
    g = cfgmod.Cfg(body)
    loops = g.loops()
    # the tick loop: the outermost loop (inner loops over small constant tables are unrolled by the interpreter)
    outer = [h_ for h_ in loops if all(o_ == h_ or o_ in loops[h_] for o_ in loops)]
    if len(outer) != 1:
        # several top-level loops (e.g. a second loop over a small constant table after the ticks): the tick loop is the one that
        # counts - it advances a Range or decrements an integer local it also tests
        top = [h_ for h_ in loops if not any(h_ != o_ and h_ in loops[o_] for o_ in loops)]

        def counts(h_):
            for b_ in loops[h_]:
                bl_ = body["blocks"][b_]
                t_ = bl_["term"]
                if t_["k"] == "call" and "ops::Range<" in (t_["callee"].get("full") or "") and (t_["callee"]["path"] or "").endswith("::next"):
                    return True
                for s_ in bl_["st"]:
                    if s_["k"] == "assign" and not s_["p"]["p"] and s_["r"]["k"] in ("bin", "checked") and s_["r"].get("op") in ("Sub", "SubWithOverflow"):
                        return True
            return False
        outer = [h_ for h_ in top if counts(h_)]
    if len(outer) != 1:
        res.errors.append("update_timer8_0: the tick loop is not identified (%d loops, %d candidates)" % (len(loops), len(outer)))
        return
    header = outer[0]
    names = {l["n"]: i for i, l in enumerate(body["locals"]) if l["n"]}
    # the tick counter, by role: a Range iterator advanced by next() in the loop (for _ in 0..ticks), or else the integer local
    # that the loop decrements and tests (while count != 0)
    range_style = any(bl_["term"]["k"] == "call" and "ops::Range<" in (bl_["term"]["callee"].get("full") or "") and (bl_["term"]["callee"]["path"] or "").endswith("::next")
                      for bl_ in (body["blocks"][b_] for b_ in loops[header]))
    # locals holding the Range that next() is applied to (through `&mut local`)
    iter_locals = set()
    if range_style:
        g_ = cfgmod.Cfg(body)
        for b_ in loops[header]:
            t_ = body["blocks"][b_]["term"]
            if t_["k"] == "call" and "ops::Range<" in (t_["callee"].get("full") or "") and (t_["callee"]["path"] or "").endswith("::next"):
                a0 = t_["args"][0]
                if a0["k"] in ("copy", "move") and not a0["p"]["p"]:
                    todo_ = [(a0["p"]["l"], 4)]
                    while todo_:
                        l0_, dep_ = todo_.pop()
                        for blk_, kd_, payload_ in g_.defs().get(l0_, []):
                            if kd_ != "st":
                                continue
                            r0_ = payload_["r"]
                            if r0_["k"] == "ref" and not r0_["p"]["p"]:
                                iter_locals.add(r0_["p"]["l"])           # &mut iter
                            elif r0_["k"] == "ref" and [pr_["k"] for pr_ in r0_["p"]["p"]] == ["deref"] and dep_ > 0:
                                todo_.append((r0_["p"]["l"], dep_ - 1))  # a reborrow &mut *r
                            elif r0_["k"] == "use" and r0_["o"]["k"] in ("copy", "move") and not r0_["o"]["p"]["p"] and dep_ > 0:
                                todo_.append((r0_["o"]["p"]["l"], dep_ - 1))
    counter_local = None
    if not range_style:
        cands = []
        for b_ in loops[header]:
            for s_ in body["blocks"][b_]["st"]:
                if s_["k"] == "assign" and not s_["p"]["p"] and s_["r"]["k"] in ("bin", "checked") and s_["r"].get("op") in ("Sub", "SubWithOverflow"):
                    src_ = s_["r"].get("a")
                    if src_ and src_["k"] in ("copy", "move") and not src_["p"]["p"]:
                        cands.append(src_["p"]["l"])
        named = [l_ for l_ in cands if body["locals"][l_].get("n")]
        if "count" in names:
            counter_local = names["count"]
        elif len(set(named)) == 1:
            counter_local = named[0]
        else:
            res.errors.append("update_timer8_0: the tick counter of the loop was not identified (candidates %r)" % sorted(set(cands)))
            return
    carried = set()
    for b_ in loops[header]:
        bl_ = body["blocks"][b_]
        for s_ in bl_["st"]:
            if s_["k"] == "assign" and not s_["p"]["p"]:
                carried.add(s_["p"]["l"])
            if s_["k"] == "assign" and s_["r"]["k"] == "ref" and s_["r"].get("mut") and not any(pr["k"] == "deref" for pr in s_["r"]["p"]["p"]):
                carried.add(s_["r"]["p"]["l"])
        t_ = bl_["term"]
        if t_["k"] == "call" and not t_["dest"]["p"]:
            carried.add(t_["dest"]["l"])
    tt = facts.types[facts.type_by_path["modules::timer8::CounterClear"]]
    cnames = [v["n"] for v in tt["variants"]]
    off = {n: a - IO2_START for n, a in REG.items()}
    for div in DIVISORS:
        for clear in range(len(cnames)):
            bm, ip = new_interp(facts)
            Mx = bv.M

            def m_into_iter(ip_, st, fr, t, args):
                return args[0]

            def m_range_next(ip_, st, fr, t, args):
                r_ = args[0]
                rng_ = ip_.read_loc(st, r_.root, r_.path)
                if not (isinstance(rng_, Agg) and len(rng_.fields) == 2 and all(isinstance(x_, Int) for x_ in rng_.fields)):
                    return None
                a_, b_ = rng_.fields
                c_ = bv.ult(a_.bits, b_.bits)

                def adv(s_, r_=r_, a_=a_):
                    ip_.write_loc(s_, r_.root, r_.path + (0,), Int(bv.add(a_.bits, bv.const(1, len(a_.bits)))))
                return [(c_, Enum(models.SOME, [a_]), adv), (Mx.NOT(c_), Enum(models.NONE, []))]
            ip.models["<I as std::iter::IntoIterator>::into_iter"] = m_into_iter
            ip.models["std::iter::range::<impl std::iter::Iterator for std::ops::Range<A>>::next"] = m_range_next
            mem = {}
            busref = bm.fresh(mem)
            resid = bv.seq_bv("t_state", 16)
            charge = bv.seq_bv("charge", 16)
            tv = timer_value(facts, fields, prescaler=Int(bv.const(div, 16)), is_cleared_by=Enum(clear, ()), state=Int(resid))
            mem[TIMER_ROOT] = tv
            snap = {}

            def at_header(ip_, st, fr, n, snap=snap):
                t = st.mem[TIMER_ROOT]
                if range_style:
                    # the Range iterator of the activation: remaining ticks = end - start
                    rr = [k_ for k_, v_ in st.mem.items() if k_[0] == "f" and k_[1] == fr.fid and isinstance(v_, Agg) and len(v_.fields) == 2
                          and all(isinstance(x_, Int) for x_ in v_.fields) and isinstance(k_[2], int) and k_[2] in iter_locals]
                    if len(rr) != 1:
                        snap["error"] = "the Range iterator of the tick loop was not found (%d candidates)" % len(rr)
                        return "stop"
                    root = rr[0]
                    rng_ = st.mem[root]
                    cur = Int(bv.sub(rng_.fields[1].bits, rng_.fields[0].bits))
                else:
                    root = ("f", fr.fid, counter_local)
                    cur = st.mem.get(root)
                if n == 0:
                    snap["entry"] = (cur, t.fields[fi["state"]], st.pc, st.eff)
                    # generalise the remaining count; the tick analysed stands for every tick
                    st.mem[root] = Agg([Int(bv.const(0, 16)), Int(bv.seq_bv("remaining", 16))]) if range_style else Int(bv.seq_bv("remaining", 16))
                    # any other integer local assigned (or mutably borrowed) in the loop is loop-carried: arbitrary value
                    snap["entry_locals"] = {}
                    snap["carried_vars"] = {}
                    for l_ in sorted(carried):
                        key_ = ("f", fr.fid, l_)
                        cur_ = st.mem.get(key_)
                        if key_ != root and isinstance(cur_, Int):
                            snap["entry_locals"][l_] = cur_.bits
                            # byte / word sized carried values (cached registers, event masks) share the interleaved order of the register blocks they are compared with
                            st.mem[key_] = Int(bv.data_bv("carried_%d" % l_, len(cur_.bits)) if len(cur_.bits) <= 8 else bv.seq_bv("carried_%d" % l_, len(cur_.bits)))
                            snap["carried_vars"][l_] = st.mem[key_].bits
                    st.eff = ()
                    return "continue"
                st.add_eff(("count_after", cur.bits if isinstance(cur, Int) else None))
                st.add_eff(("carried_after", tuple((l_, st.mem[("f", fr.fid, l_)].bits) for l_ in sorted(snap.get("carried_vars", {}))
                                                   if isinstance(st.mem.get(("f", fr.fid, l_)), Int))))
                return "stop"
            if div != 0:
                ip.block_hooks[(key, header)] = at_header     # with no clock selected nothing may happen: analysed as it is
            a_io2 = SymArr("io_registrs2", bm.lens["io_registrs2"], 8)
            mem[("h", "ic")] = Opaque("ic")
            outs = ip.run_all(key, [Ref(TIMER_ROOT, ()), busref, Int(charge), Ref(("h", "ic"), ())], mem)
            if ip.unknown_callees:
                res.errors.append("unmodelled callees in update_timer8_0: %r" % ip.unknown_callees)
            pre = Mx.AND(bv.ult(resid, bv.const(max(div, 1) if div else 8192, 16)), bv.ule(charge, bv.const(765, 16)))
            if div == 0:
                # nothing may happen
                for o in outs:
                    st = o.state
                    if Mx.AND(st.pc, pre) == 0:
                        continue
                    if any(t in st.tags for t in ("opaque-switch", "opaque-assert", "unknown-callee", "unwrap-opaque")):
                        res.errors.append("imprecise trace in the timer analysis (stopped clock): %r" % (st.tags,))
                        continue
                    if o.kind == "panic":
                        res.ob(False)
                        res.finding("count|panic|%s" % o.info.get("kind"), "with no clock selected the timer update can panic (%s, line %s)" % (o.info.get("kind"), o.info.get("line")), witness(Mx.AND(st.pc, pre)))
                        continue
                    nothing = o.kind == "return" and isinstance(o.value, Enum) and o.value.variant == models.OK and not st.eff \
                        and not any(bm.store_of(st, n).writes for n in bm.stores) and st.mem[TIMER_ROOT].fields[fi["state"]].bits == resid
                    res.ob(nothing)
                    if not nothing:
                        res.finding("count|stopped-clock-acts", "with no clock selected the timer update still has an effect", witness(Mx.AND(st.pc, pre)))
                    res.evaluations += 1
                continue
            # (2) accumulation at the loop head
            if snap.get("error"):
                res.errors.append(snap["error"])
                continue
            ent = snap.get("entry")
            if ent is None:
                res.errors.append("tick loop head not reached for divisor %d" % div)
                continue
            cnt0, st0, pc0, eff0 = ent
            k = div.bit_length() - 1
            total = bv.add(resid, charge)
            care = Mx.AND(pc0, pre)
            d1 = differs(cnt0.bits, bv.lshr_const(total, k), care) if isinstance(cnt0, Int) else care
            d2 = differs(st0.bits, total[:k] + (0,) * (16 - k), care) if isinstance(st0, Int) else care
            res.ob(d1 == 0)
            res.ob(d2 == 0)
            if d1 != 0:
                res.finding("count|ticks", "the number of ticks is not (residual + states) div %d" % div, witness(d1))
            if d2 != 0:
                res.finding("count|residual", "the new residual is not (residual + states) mod %d" % div, witness(d2))
            res.ob(not eff0)
            # (3) one tick
            rem = bv.seq_bv("remaining", 16)
            TCNT = ip.arr_read(a_io2, bv.const(off["TCNT"], 8))
            TCORA = ip.arr_read(a_io2, bv.const(off["TCORA"], 8))
            TCORB = ip.arr_read(a_io2, bv.const(off["TCORB"], 8))
            TCSR = ip.arr_read(a_io2, bv.const(off["TCSR"], 8))
            ena = {"a": bv.data_bv("t_is_allowed_cmia", 1)[0], "b": bv.data_bv("t_is_allowed_cmib", 1)[0], "o": bv.data_bv("t_is_allowed_ovi", 1)[0]}
            # registers kept in locals across the ticks (read once before the loop, stored back after it): a loop-carried local whose
            # value on entry IS the register's content plays the register's role during the ticks
            ent_l = snap.get("entry_locals", {})
            cvars = snap.get("carried_vars", {})
            cache = {}
            for rn_, blk_ in (("TCNT", TCNT), ("TCSR", TCSR)):
                hit_ = [l_ for l_, b_ in ent_l.items() if tuple(b_) == tuple(blk_)]
                if len(hit_) == 1:
                    cache[rn_] = hit_[0]
                elif len(hit_) > 1:
                    res.errors.append("tick loop: several loop-carried locals hold %s on entry: not decidable" % rn_)
            TCNT0_, TCSR0_ = TCNT, TCSR
            if "TCNT" in cache:
                TCNT = cvars[cache["TCNT"]]
            if "TCSR" in cache:
                TCSR = cvars[cache["TCSR"]]
            res.inventory["registers_cached_in_locals"] = sorted(cache)
            t1, car = bv.add_c(TCNT, bv.const(1, 8))
            ovf = car[-1]
            ma = bv.eq(t1, TCORA)
            mb = bv.eq(t1, TCORB)
            cname = cnames[clear]
            clr = ma if cname == "CompareA" else (mb if cname == "CompareInputB" else 0)
            exp_tcnt = bv.ite(clr, bv.const(0, 8), t1)
            exp_tcsr = tuple(TCSR)
            exp_tcsr = exp_tcsr[:6] + (Mx.OR(exp_tcsr[6], ma), Mx.OR(exp_tcsr[7], mb))
            exp_tcsr = exp_tcsr[:5] + (Mx.OR(exp_tcsr[5], ovf),) + exp_tcsr[6:]
            # simultaneous events are left open by the property when a clear source is selected
            open_case = 1
            if cname in ("CompareA", "CompareInputB"):
                open_case = Mx.AND(Mx.NOT(bv.eq(TCORA, TCORB)), Mx.AND(Mx.NOT(bv.is_zero(TCORA)), Mx.NOT(bv.is_zero(TCORB))))
            seen_tick = 0
            for o in outs:
                st = o.state
                if o.kind == "panic" and any(t in st.tags for t in ("opaque-switch", "opaque-assert", "unknown-callee", "unwrap-opaque")):
                    res.errors.append("imprecise trace in the timer analysis (panic branch): %r" % (st.tags,))
                    continue
                if st.ctr.get(("visit", header), 0) == 0:
                    continue
                care = Mx.AND(Mx.AND(st.pc, pre), open_case)
                if care == 0:
                    continue
                if o.kind == "panic":
                    res.ob(False)
                    res.finding("tick|panic|%s" % o.info.get("kind"), "the tick loop can panic (%s, line %s)" % (o.info.get("kind"), o.info.get("line")), witness(care))
                    continue
                if any(t in st.tags for t in ("opaque-assert", "unknown-callee")):
                    res.errors.append("imprecise trace in the tick loop: %r" % (st.tags,))
                    continue     # an imprecisely followed trace decides nothing
                ca = [e for e in st.eff if e[0] == "count_after"]
                if not ca:
                    # the loop was left: only when the remaining count is zero
                    bad = Mx.AND(care, Mx.NOT(bv.is_zero(rem)))
                    okk = bad == 0 and o.kind == "return" and isinstance(o.value, Enum) and o.value.variant == models.OK
                    res.ob(okk)
                    if not okk:
                        res.finding("loop|early-exit", "the tick loop is left although ticks remain (a tick is lost)", witness(bad or care))
                    elif cache:
                        # the cached registers must be stored back when the loop ends
                        io2x = bm.store_of(st, "io_registrs2")
                        for rn_, l_ in sorted(cache.items()):
                            d = differs(ip.arr_read(io2x, bv.const(off[rn_], 8)), cvars[l_], care)
                            res.ob(d == 0)
                            if d != 0:
                                res.finding("loop|write-back|%s" % rn_, "%s is kept in a local during the ticks and its final value is not stored back to the register when the loop ends" % rn_, witness(d))
                    continue
                bad = Mx.AND(care, bv.is_zero(rem))
                res.ob(bad == 0)
                if bad != 0:
                    res.finding("loop|extra-tick", "a tick is executed although none remains", witness(bad))
                d = differs(ca[0][1], bv.sub(rem, bv.const(1, 16)), care) if ca[0][1] is not None else care
                res.ob(d == 0)
                if d != 0:
                    res.finding("loop|decrement", "the remaining tick count is not decreased by exactly one per tick", witness(d))
                seen_tick = Mx.OR(seen_tick, care)
                io2 = bm.store_of(st, "io_registrs2")
                # only TCNT0 and TCSR0 are stored
                idxs = sorted(bv.to_int(w[0]) if bv.to_int(w[0]) is not None else -1 for w in io2.writes)
                others = [n for n in bm.stores if n != "io_registrs2" and bm.store_of(st, n).writes]
                okk = set(idxs) <= {off["TCNT"], off["TCSR"]} and not others
                res.ob(okk)
                if not okk:
                    res.finding("tick|stores", "a tick stores to registers other than TCNT0/TCSR0 (indices %r, stores %r)" % (idxs, others), witness(care))
                after_l = dict(([e for e in st.eff if e[0] == "carried_after"] or [(None, ())])[0][1])
                got_tcnt = after_l.get(cache["TCNT"]) if "TCNT" in cache else ip.arr_read(io2, bv.const(off["TCNT"], 8))
                got_tcsr = after_l.get(cache["TCSR"]) if "TCSR" in cache else ip.arr_read(io2, bv.const(off["TCSR"], 8))
                if got_tcnt is None or got_tcsr is None:
                    res.errors.append("tick loop: the value of a register cached in a local is not available after the tick: not decidable")
                    continue
                d = differs(got_tcnt, exp_tcnt, care)
                res.ob(d == 0)
                if d != 0:
                    res.finding("tick|tcnt|%s" % cname, "TCNT after a tick is not TCNT+1 (cleared exactly by the selected compare match: %s)" % cname, witness(d))
                d = differs(got_tcsr, exp_tcsr, care)
                res.ob(d == 0)
                if d != 0:
                    res.finding("tick|tcsr", "TCSR after a tick is not TCSR | CMFA/CMFB/OVF on match / overflow (flags must be sticky and exact)", witness(d))
                irqs = [e[1] for e in st.eff if e[0] == "irq"]
                OBSERVED_VECTORS.update(irqs)
                for vec, ev, en, what in ((36, ma, ena["a"], "CMIA"), (37, mb, ena["b"], "CMIB"), (39, ovf, ena["o"], "OVI")):
                    n = irqs.count(vec)
                    want = Mx.AND(ev, en)
                    bad = Mx.AND(care, Mx.NOT(want)) if n else Mx.AND(care, want)
                    if n == 0 and bad != 0:
                        # not requested in the tick in which the event occurs.  Is it recorded in a loop-carried local for later (deferred
                        # request)?  A record that is idempotent (x | flag, x = true) cannot count: two events of one charge collapse
                        # into one request - decided by composing the update with itself.  A counting record is not followed further.
                        defer = [l_ for l_, b_ in after_l.items() if l_ not in cache.values() and any(x_ != y_ and Mx.AND(bad, Mx.XOR(x_, y_)) != 0 for x_, y_ in zip(b_, cvars[l_]))]
                        if defer:
                            repeat = cname in ("CompareA", "CompareInputB") and vec in (36, 37)   # a match can recur within one charge only when a compare match clears TCNT
                            idem = True
                            for l_ in defer:
                                sub_ = {Mx.var[x_]: y_ for x_, y_ in zip(cvars[l_], after_l[l_]) if x_ > 1}
                                twice = tuple(Mx.compose(y_, sub_) for y_ in after_l[l_])
                                if any(a_ != b_ and Mx.AND(bad, Mx.XOR(a_, b_)) != 0 for a_, b_ in zip(twice, after_l[l_])):
                                    idem = False
                            if idem and repeat:
                                res.ob(False)
                                res.finding("tick|irq|%d|merged" % vec, "interrupt %d (%s) is not requested in the tick of its event but recorded in a local that cannot count (idempotent update): "
                                            "several events within one instruction's states yield one request" % (vec, what), witness(bad))
                            else:
                                res.errors.append("tick loop: interrupt %d is deferred through a loop-carried local (%s record): the later requests are not followed - not decidable" % (vec, "idempotent" if idem else "counting"))
                            continue
                    okk = bad == 0 and n <= 1
                    res.ob(okk)
                    if not okk:
                        res.finding("tick|irq|%d" % vec, "interrupt %d (%s) is %s" % (vec, what, "requested %d times / without its event or enable" % n if n else "not requested although the event occurred and it is enabled"), witness(bad or care))
                extra = [v for v in irqs if v not in (36, 37, 39)]
                res.ob(not extra)
                if extra:
                    res.finding("tick|irq|other", "a tick requests vector(s) %r" % extra, witness(care))
                res.evaluations += 1
                if len(res.samples) < 6:
                    res.samples.append({"rule": "tick", "divisor": div, "clear": cname, "irqs": irqs, "stores": idxs})
            res.ob(seen_tick != 0)
            if seen_tick == 0:
                res.errors.append("no tick trace for divisor %d clear %s" % (div, cname))
            res.distinct += 1


OBSERVED_VECTORS = set()     # vector numbers requested in the analysed ticks (None = not a constant); read by rules/c10


def run(ctx, res):
    facts = ctx["facts"]
    OBSERVED_VECTORS.clear()
    res.explanation = __doc__.split("\n\n", 1)[1].replace("\n", " ")
    res.rule = "abstract interpretation of update_tcr, of update_timer8_0 up to the tick loop, and of one generalised tick, against the per-tick reference; field value sets from the who-writes-field rule"
    res.trusted = ["rustc MIR", "h8facts", "interp.py/models.py", "bdd.py", "tick reference in rules/c17.py (hardware manual, 8-bit timer)"]
    res.assumptions = ["charges per update are at most 765 states (255 x 3, C13)", "the residual is below the divisor on entry (established by update_tcr and preserved by the accumulation, both checked here)",
                       "simultaneous compare events with a clear source selected are left open, as in the property"]
    res.not_decided = ["equality with a tick-by-tick reference for every partition of elapsed time: it follows from (2) by telescoping plus the exact loop count of (3); the induction is stated, not mechanised",
                       "external clock / cascade selections (CKS >= 4): the divisor is left unchanged by the emulator"]
    tt = facts.types[facts.type_by_path["modules::timer8::Timer8_0"]]
    fields = [f["n"] for f in tt["variants"][0]["fields"]]
    fi = {n: i for i, n in enumerate(fields)}
    # who-writes-field: prescaler takes only the values 0/8/64/8192
    vals = set()
    writers = set()
    for key, b in facts.bodies.items():
        for bl in b["blocks"]:
            for s in bl["st"]:
                if s["k"] == "assign" and any(pr["k"] == "field" and pr["n"] == "prescaler" for pr in s["p"]["p"]) and s["p"]["p"][-1].get("n") == "prescaler":
                    writers.add(key)
                    r = s["r"]
                    if r["k"] == "use" and r["o"]["k"] == "const" and "int" in r["o"]["v"]:
                        vals.add(int(r["o"]["v"]["int"]))
                    else:
                        vals.add(None)
                if s["k"] == "assign" and s["r"]["k"] == "agg" and s["r"].get("path", "").endswith("Timer8_0"):
                    i = s["r"]["fnames"].index("prescaler")
                    o_ = s["r"]["ops"][i]
                    vals.add(int(o_["v"]["int"]) if o_["k"] == "const" and "int" in o_["v"] else None)
                    writers.add(key)
    res.inventory["prescaler_values"] = sorted(v for v in vals if v is not None)
    res.inventory["prescaler_writers"] = sorted(writers)
    okk = vals <= set(DIVISORS)
    res.ob(okk)
    wrong = sorted(v for v in vals if v is not None and v not in DIVISORS)
    if wrong:
        res.finding("field|prescaler-values", "the divisor field is assigned the constant(s) %r, not one of 0/8/64/8192" % wrong)
    elif not okk:
        # a computed / looked-up divisor: its value set is not followed by this syntactic rule; the TCR analysis below decides the
        # divisor per clock selection, so only note it when that analysis cannot
        res.inventory["prescaler_computed"] = True
    part_tcr(facts, res, fields, fi)
    part_timer(facts, res, fields, fi)
    # (4) re-entrancy
    cg = cfgmod.CallGraph(facts)
    k_upd = facts.find("update_modules")[0]
    k_write = facts.body("bus::Bus::write")["key"]
    reach = cg.reachable(k_upd)
    res.ob(k_write not in reach)
    if k_write in reach:
        res.finding("reentrancy|bus-write", "Bus::write is reachable from update_modules while the module manager is mutably borrowed: %s" % " -> ".join(cg.path(k_upd, k_write)))
    # TCR writes reach update_tcr
    k_wr = facts.find("write_registers")[0]
    k_tcr = facts.find("update_tcr")[0]
    res.ob(k_tcr in cg.edges.get(k_wr, ()))
    tcr0 = facts.consts.get("modules::timer8::TCR0_8")
    res.ob(tcr0 is not None and int(tcr0["v"]["int"]) == REG["TCR"])
    for n, cn in (("TCSR", "TCSR0_8"), ("TCORA", "TCORA0"), ("TCORB", "TCORB0"), ("TCNT", "TCNT0_8")):
        c = facts.consts.get("modules::timer8::" + cn)
        okk = c is not None and int(c["v"]["int"]) == REG[n]
        res.ob(okk)
        if not okk:
            res.finding("regaddr|%s" % n, "register %s is at %s, hardware manual: 0x%x" % (n, c and c["v"]["int"], REG[n]))
    res.floor("tick analyses (divisor x clear source)", res.distinct, 12)
    res.floor("obligations", res.obligations, 300)
