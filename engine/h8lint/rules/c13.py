"""C13 - run loop and time base.

Cpu::run is analysed from its entry by the abstract interpreter; at the header of the
main loop every loop-carried value is generalised to a fresh symbolic value (so the
analysed iteration stands for every iteration) and the trace is cut when the header is
reached again.  try_interrupt, fetch, exec, send_sync_message and update_modules are
summarised as effects.  Decided for all values of the counters, PC, exit address and of
the charge returned by exec:
(1) an error from exec / try_interrupt / sync / modules makes run return that error,
    with no further accounting;                       (2) Ok is returned only when
    PC == exit address after an instruction (or on the stop keyword - C18);
(3) one time base: state = 3 x charge is added to state_sum, mirrored into
    bus.cpu_state_sum before the peripherals run, and is the value the peripherals see;
(4) sync: emitted exactly when sync_count + state >= 2,000,000, once, carrying the new
    total, and the counter is reduced by the same constant; an iteration adds at most
    765 < 2,000,000 states;                            (5) determinism: no value derived
    from the host clock reaches guest-visible state, a message or an effect argument,
    and no nondeterminism source is reachable from run."""
import bv
import cfg as cfgmod
import isa as isamod
import isacheck
import models
from interp import Agg, Enum, Int, Interp, Opaque, Ref, SymArr, UNIT, is_tainted

K_SYNC = 2_000_000
NONDET = ("rand::", "SystemTime", "thread::current", "RandomState", "getrandom", "std::env::", "std::process::id")


def witness(c):
    return isacheck.group_witness(bv.M.describe_assign(bv.M.sat_one(c)))


def time_models(ip):
    def m_time(ip_, st, fr, t, args):
        return Opaque("time")

    def m_host(ip_, st, fr, t, args):
        return ip_.opaque_of_type(t["dest"]["ty"], "host")
    pats = ip.pattern_models
    pats.append((lambda p, f: p.startswith("std::time::") or p.startswith("core::time::") or "Duration" in p or "Instant" in p, m_time))
    pats.append((lambda p, f: p.startswith("spin_sleep::") or "SpinSleeper" in p, m_host))
    pats.append((lambda p, f: p.startswith("log::") or p == "std::cmp::PartialOrd::le" or p.startswith("std::fmt::") or "fmt::Arguments" in p, m_host))
    pats.append((lambda p, f: p.endswith("::deref") or p.endswith("::deref_mut") or ("RefCell" in p and p.endswith("borrow_mut")), m_host))


SUMMARISED = ("try_interrupt", "cpu::Cpu::fetch", "cpu::Cpu::exec", "send_sync_message", "update_modules")


def timebase_writers(facts):
    """who-may-write rule for the time base: the iteration analysis summarises try_interrupt / fetch / exec / the sync message / the
    peripherals as effects, so none of them (nor anything they reach) may store into Cpu.state_sum or Bus.cpu_state_sum - a store
    there is invisible to the accounting rules and can make the bus clock (the ioport time stamps) jump or run backwards.
    Returns [(summarised entry, writer body, field)]."""
    cg = cfgmod.CallGraph(facts)
    writers = []
    for key, b in facts.bodies.items():
        for bl in b["blocks"]:
            for st_ in bl["st"]:
                if st_["k"] != "assign":
                    continue
                pl = [st_["p"]]
                r_ = st_["r"]
                if r_["k"] in ("ref", "rawptr") and r_.get("mut"):
                    pl.append(r_["p"])
                for p_ in pl:
                    for pr in p_["p"]:
                        if pr["k"] == "field" and pr.get("n") in ("state_sum", "cpu_state_sum") and (p_ is st_["p"] and pr is p_["p"][-1] or p_ is not st_["p"]):
                            writers.append((key, pr["n"]))
    out = []
    for suffix in SUMMARISED:
        c = facts.find(suffix) if "::" not in suffix else [facts.body(suffix)["key"]]
        if len(c) != 1:
            continue
        reach = cg.reachable(c[0])
        for w, fld in sorted(set(writers)):
            if w in reach:
                out.append((c[0], w, fld))
    return out


def analyse(facts, with_socket=False, extra_setup=None):
    bv.reset()
    I = isamod.Isa(facts)
    ms, pats = models.standard_models()
    ip = Interp(facts, primitives={}, models=ms, max_steps=400000)
    ip.pattern_models = pats
    time_models(ip)
    k_run = facts.body("cpu::Cpu::run")["key"]
    body = facts.bodies[k_run]
    g = cfgmod.Cfg(body)
    loops = g.loops()
    if not loops:
        raise RuntimeError("run has no loop")
    header = max(loops, key=lambda h: len(loops[h]))
    loop_blocks = loops[header]
    # ---- primitives (effects)

    def fail_fork(st, okval, eff):
        i = st.count("ctl")
        okv = bv.ctl_var("ok", i)
        st.add_eff(eff)
        return [(okv, okval), (bv.M.NOT(okv), Enum(models.ERR, [Opaque("err:" + eff[0])]), lambda s: s.tag("failed:" + eff[0]))]

    def cpu_field(st, name):
        return st.mem[isamod.CPU_ROOT].fields[I.fi[name]]

    def p_try_interrupt(ip_, st, fr, t, args):
        # Result<()> today; if the entry sequence reports a charge (Result<integer>) the value is arbitrary here
        okv = UNIT
        rt = ip_.types[t["dest"]["ty"]]
        try:
            okt = rt["variants"][models.OK]["fields"][0]
            okt = okt["ty"] if isinstance(okt, dict) else okt
            ii = ip_.int_info(okt)
            if ii:
                okv = Int(bv.seq_bv("irq_charge", ii[0]))
        except (KeyError, IndexError, TypeError):
            pass
        return fail_fork(st, Enum(models.OK, [okv]), ("try_interrupt",))

    def p_fetch(ip_, st, fr, t, args):
        st.add_eff(("fetch",))
        return Int(bv.seq_bv("opcode", 16))

    def p_exec(ip_, st, fr, t, args):
        # exec may change the architectural state arbitrarily: generalise PC
        ip_.write_loc(st, isamod.CPU_ROOT, (I.fi["pc"],), Int(bv.seq_bv("pc_after", 32)))
        return fail_fork(st, Enum(models.OK, [Int(bv.seq_bv("charge", 8))]), ("exec",))

    def p_sync(ip_, st, fr, t, args):
        return fail_fork(st, Enum(models.OK, [UNIT]), ("sync", cpu_field(st, "state_sum")))

    def p_modules(ip_, st, fr, t, args):
        bus = cpu_field(st, "bus")
        css = bus.fields[busfi["cpu_state_sum"]] if isinstance(bus, Agg) else Opaque("?")
        return fail_fork(st, Enum(models.OK, [UNIT]), ("modules", args[2], css))

    def p_noop(ip_, st, fr, t, args):
        return UNIT

    def p_ok(name):
        def f(ip_, st, fr, t, args):
            return fail_fork(st, Enum(models.OK, [UNIT]), (name,))
        return f
    busfields = facts.struct_fields("bus::Bus")
    busfi = {n: i for i, n in enumerate(busfields)}
    prim = {
        "try_interrupt": p_try_interrupt, "cpu::Cpu::fetch": p_fetch, "cpu::Cpu::exec": p_exec, "send_sync_message": p_sync,
        "update_modules": p_modules, "print_er": p_noop, "init_registers": p_ok("init_registers"), "send_ready_message": p_ok("ready"),
    }
    for suffix, fn in prim.items():
        c = facts.find(suffix) if "::" not in suffix else [facts.body(suffix)["key"]]
        if len(c) != 1:
            raise RuntimeError("anchor %s: %r" % (suffix, c))
        ip.primitives[c[0]] = fn
    # ---- initial state
    cpu = I.fresh_cpu()
    fs = list(cpu.fields)
    busv = [Opaque("bus." + n) for n in busfields]
    busv[busfi["cpu_state_sum"]] = Int(bv.seq_bv("css0", 64))
    fs[I.fi["bus"]] = Agg(busv)
    fs[I.fi["state_sum"]] = Int(bv.seq_bv("sum0", 64))
    fs[I.fi["exit_addr"]] = Int(bv.seq_bv("exit", 32))
    if "socket" in I.fi:
        fs[I.fi["socket"]] = Enum(models.SOME, [Opaque("socket")]) if with_socket else Enum(models.NONE, [])
    if "fetch_fault" in I.fi:
        fs[I.fi["fetch_fault"]] = Enum(models.NONE, [])
    cpu = Agg(fs)
    names = {l["n"]: i for i, l in enumerate(body["locals"]) if l["n"]}
    assigned = set()
    for b_ in loop_blocks:
        bl = body["blocks"][b_]
        for s in bl["st"]:
            if s["k"] == "assign" and not s["p"]["p"]:
                assigned.add(s["p"]["l"])
            # a local mutated through a reference taken inside the loop is loop-carried as well
            if s["k"] == "assign" and s["r"]["k"] == "ref" and s["r"].get("mut") and not any(pr["k"] == "deref" for pr in s["r"]["p"]["p"]):
                assigned.add(s["r"]["p"]["l"])
        t = bl["term"]
        if t["k"] == "call" and not t["dest"]["p"]:
            assigned.add(t["dest"]["l"])
    info = {"header": header, "loop_blocks": len(loop_blocks), "havocked_locals": 0, "prologue": None}

    def at_header(ip_, st, fr, n):
        if n >= 1:
            return "stop"
        # prologue facts (C12: execution starts at ER2)
        info["prologue"] = {"pc": cpu_field(st, "pc"), "eff": st.eff, "pcond": st.pc}
        # generalise: every local assigned in the loop, and the guest-visible counters
        for l in assigned:
            ty = ip_.int_info(body["locals"][l]["ty"])
            nm = body["locals"][l]["n"] or ("l%d" % l)
            root = ("f", fr.fid, l)
            cur = st.mem.get(root)
            if is_tainted(cur) or (isinstance(cur, Opaque) and cur.tag in ("time", "host")):
                continue
            if ty:
                st.mem[root] = Int(bv.seq_bv("h_" + nm, ty[0]))
                info.setdefault("places", {})[nm] = (l, ())
                info.setdefault("havoc_vars", {})[nm] = st.mem[root].bits
            elif isinstance(cur, Agg) and cur.fields and all(isinstance(x, Int) for x in cur.fields):
                # counters kept together in a small struct: each integer field is generalised under its field name
                tt_ = ip_.types[body["locals"][l]["ty"]]
                fdefs = tt_.get("fields") or ((tt_.get("variants") or [{}])[0].get("fields") or [])
                newf = []
                for i_, x in enumerate(cur.fields):
                    fn_ = fdefs[i_]["n"] if i_ < len(fdefs) and isinstance(fdefs[i_], dict) and fdefs[i_].get("n") else "%s.%d" % (nm, i_)
                    newf.append(Int(bv.seq_bv("h_" + fn_, len(x.bits))))
                    info.setdefault("places", {})[fn_] = (l, (i_,))
                    info.setdefault("havoc_vars", {})[fn_] = newf[-1].bits
                st.mem[root] = Agg(newf)
            elif cur is not None:
                st.mem[root] = Opaque("havoc") if not is_tainted(cur) else cur
            info["havocked_locals"] += 1
        st.eff = ()
        ip_.write_loc(st, isamod.CPU_ROOT, (I.fi["pc"],), Int(bv.seq_bv("pc0", 32)))
        ip_.write_loc(st, isamod.CPU_ROOT, (I.fi["state_sum"],), Int(bv.seq_bv("sum0", 64)))
        return "continue"
    ip.block_hooks[(k_run, header)] = at_header
    if extra_setup is not None:
        extra_setup(ip, {"k_run": k_run, "body": body, "cfg": g, "loops": loops, "header": header, "I": I, "names": names})
    outs = ip.run_all(k_run, [Ref(isamod.CPU_ROOT, ())], {isamod.CPU_ROOT: cpu})
    return I, ip, outs, info, names, body, g, busfi


def run(ctx, res):
    facts = ctx["facts"]
    res.explanation = __doc__.split("\n\n", 1)[1].replace("\n", " ")
    res.rule = "one generalised iteration of Cpu::run (abstract interpretation, loop-carried state havocked at the header) == reference iteration; call-graph denylist for nondeterminism sources"
    res.trusted = ["rustc MIR", "h8facts", "interp.py/models.py", "bdd.py", "reference iteration in rules/c13.py"]
    res.assumptions = ["try_interrupt, fetch, exec, send_sync_message, update_modules are summarised as effects with arbitrary (symbolic) outcomes",
                       "the control socket is absent in this analysis (C18 covers the message loop)",
                       "host I/O (log, print, sleep) has no guest-visible effect"]
    res.not_decided = ["'executes its instructions in order until PC equals the exit address' as a statement about whole executions: it is the closure of the iteration facts",
                       "independence from host thread scheduling of the socket workers"]
    tw = timebase_writers(facts)
    res.ob(not tw)
    for ent_, w_, fld_ in tw:
        res.finding("timebase|written-inside|%s" % ent_.split("::")[-1], "%s stores into %s while running under %s, which the accounting treats as a pure step: the time base "
                    "(state total / bus clock used for time stamps) changes outside the per-instruction accounting" % (w_, fld_, ent_.split("::")[-1]))
    # the exit test compares the whole 32-bit PC field: every instruction must leave its upper byte clear (instruction-level analysis)
    try:
        import isarun
        agg_ = isarun.run(facts.path)
        for f_ in agg_["findings"].values():
            if "C13" in f_["props"]:
                res.ob(False)
                res.finding("exit|%s" % f_["key"], f_["msg"], f_["witness"])
        res.ob(True, agg_["trace_kinds"].get("return", 0))
        res.inventory["instruction_traces_checked_for_pc_upper_byte"] = agg_["trace_kinds"].get("return", 0)
    except Exception as e_:      # noqa
        res.errors.append("instruction-level analysis (PC upper byte): %s" % str(e_)[:300])
    I, ip, outs, info, names, body, g, busfi = analyse(facts)
    Mx = bv.M
    if ip.unknown_callees:
        res.errors.append("unmodelled callees in run: %r" % ip.unknown_callees)
    res.inventory.update({"loop_header_block": info["header"], "loop_blocks": info["loop_blocks"], "havocked_locals": info["havocked_locals"], "traces": len(outs)})
    # ---- prologue: PC := ER2 before the first fetch
    pro = info["prologue"]
    if pro is None:
        res.errors.append("loop header never reached")
        return
    er2 = ip.arr_read(SymArr("er", 8, 32), bv.const(2, 3))
    okp = isinstance(pro["pc"], Int) and pro["pc"].bits == er2
    res.ob(okp)
    if not okp:
        res.finding("prologue|pc-from-er2", "run does not start execution at the address held in ER2")
    res.ob(not any(e[0] in ("fetch", "exec") for e in pro["eff"]))
    # the sync counter: the loop-carried 64-bit integer (local or field of a counter struct) named sync_count, else - by role - the
    # only generalised counter the decision to send a sync message depends on; not identified = the sync rules are not decidable
    hv = info.get("havoc_vars", {})
    sync_name = "sync_count" if "sync_count" in hv and len(hv["sync_count"]) == 64 else None
    if sync_name is None:
        S_ = 0
        for o_ in outs:
            if any(e[0] == "sync" for e in o_.state.eff) and not any(t_ in o_.state.tags for t_ in ("opaque-assert", "unknown-callee", "opaque-switch")):
                S_ = Mx.OR(S_, o_.state.pc)
        dep = set()
        sup_ = set(Mx.support(S_)) if S_ not in (0, 1) else set()
        for nm_, bits_ in hv.items():
            ranks_ = set(Mx.var[b_] for b_ in bits_ if b_ > 1)
            if len(bits_) == 64 and ranks_ & sup_:
                # does sending the message restrict this counter?  (a counter that is merely tested later on the same path does not)
                if Mx.exists(S_, sup_ - ranks_) != 1:
                    dep.add(nm_)
        if len(dep) == 1:
            sync_name = dep.pop()
    if sync_name is None:
        res.errors.append("the loop-carried counter that triggers the sync message was not identified (no 64-bit counter named sync_count, %d candidates by role): the sync rules are not decidable" % len(hv))
        return
    info["places"]["sync_count"] = info["places"][sync_name]
    res.inventory["sync_counter"] = sync_name
    sync = tuple(hv[sync_name])
    # the pause flag: the 1-bit loop-carried local named is_paused, else - by role - the only generalised flag that decides the iterations
    # in which nothing happens; none identified = no iteration may be empty
    if "is_paused" in hv and len(hv["is_paused"]) == 1:
        paused = hv["is_paused"][0]
    else:
        E_ = 0
        for o_ in outs:
            if o_.kind == "stop" and not o_.state.eff and o_.state.ctr.get(("visit", info["header"]), 0):
                E_ = Mx.OR(E_, o_.state.pc)
        supE = set(Mx.support(E_)) if E_ not in (0, 1) else set()
        flags_ = [bits_[0] for nm_, bits_ in hv.items() if len(bits_) == 1 and bits_[0] > 1 and Mx.var[bits_[0]] in supE and Mx.AND(E_, Mx.NOT(bits_[0])) == 0]
        if len(flags_) == 1:
            paused = flags_[0]
        elif E_ == 0:
            paused = 0
        else:
            res.errors.append("iterations in which nothing happens are not controlled by one identifiable flag: the pause rule is not decidable")
            return
    charge = bv.seq_bv("charge", 8)
    sum0 = bv.seq_bv("sum0", 64)
    pre = bv.ult(sync, bv.const(K_SYNC, 64))      # invariant of the counter at the header
    state16 = bv.mul(bv.zext(charge, 16), bv.const(3, 16))
    state64 = bv.zext(state16, 64)
    new_sum = bv.add(sum0, state64)
    crossing = bv.ule(bv.const(K_SYNC, 64), bv.add(sync, state64))
    pc_after = bv.seq_bv("pc_after", 32)
    exitv = bv.seq_bv("exit", 32)
    at_exit = bv.eq(pc_after, exitv)
    seen = {"ok_exit": 0, "back": 0, "err": 0, "paused": 0}
    schemes = set()
    for o in outs:
        st = o.state
        care = Mx.AND(st.pc, pre)
        # only the generalised iteration (after the header) is compared; prologue failures are plain error returns
        visited = st.ctr.get(("visit", info["header"]), 0)
        if care == 0:
            continue
        if o.kind == "panic":
            # overflow of the 64-bit totals is not guest-reachable (2^64 states); everything else is reported under C15
            continue
        if any(t in st.tags for t in ("opaque-assert", "unknown-callee")):
            res.errors.append("imprecise trace: %r" % (st.tags,))
            continue     # an imprecisely followed trace decides nothing
        kinds = [e[0] for e in st.eff]
        failed = [t for t in st.tags if t.startswith("failed:")]
        if visited == 0:
            # prologue: only error returns are possible before the loop
            okk = o.kind == "return" and isinstance(o.value, Enum) and o.value.variant == models.ERR and failed
            res.ob(bool(okk))
            if not okk:
                res.finding("prologue|outcome", "run can end before the loop other than by propagating an error", witness(care))
            continue
        res.evaluations += 1
        # (5) determinism: nothing guest-visible is tainted
        cpu = st.mem[isamod.CPU_ROOT]
        vis = {"pc": cpu.fields[I.fi["pc"]], "state_sum": cpu.fields[I.fi["state_sum"]], "ccr": cpu.fields[I.fi["ccr"]],
               "cpu_state_sum": cpu.fields[I.fi["bus"]].fields[busfi["cpu_state_sum"]]}
        for e in st.eff:
            for j, x in enumerate(e[1:]):
                vis["%s.arg%d" % (e[0], j)] = x
        if o.kind == "stop":
            pl_ = info.get("places", {}).get("sync_count")
            v_ = st.mem.get(("f", st.frames[0].fid, pl_[0])) if pl_ else st.mem.get(("f", st.frames[0].fid, names.get("sync_count", -1)))
            for i_ in (pl_[1] if pl_ else ()):
                v_ = v_.fields[i_] if isinstance(v_, Agg) and i_ < len(v_.fields) else None
            vis["sync_count"] = v_
        for nm, v in vis.items():
            bad = is_tainted(v)
            res.ob(not bad)
            if bad:
                res.finding("determinism|%s" % nm, "a value derived from the host clock reaches %s" % nm, witness(care))
        if failed:
            # (1) error discipline
            okk = o.kind == "return" and isinstance(o.value, Enum) and o.value.variant == models.ERR
            res.ob(okk)
            if not okk:
                res.finding("error|%s|not-returned" % failed[0][7:], "an error from %s does not make run return an error (outcome %s)" % (failed[0][7:], o.kind), witness(care))
                continue
            seen["err"] = Mx.OR(seen["err"], care)
            fk = failed[0][7:]
            after = kinds[kinds.index(fk) + 1:] if fk in kinds else []
            res.ob(not after)
            if after:
                res.finding("error|%s|continues" % fk, "after %s failed the loop still performs %r" % (fk, after), witness(care))
            if fk == "exec" or (fk == "try_interrupt" and "exec" not in kinds):
                ssv = vis["state_sum"]
                same = isinstance(ssv, Int) and Mx.AND(care, Mx.NOT(bv.eq(ssv.bits, sum0))) == 0
                res.ob(same)
                if not same:
                    res.finding("error|%s|accounted" % fk, "a failed %s is still accounted in the state total" % fk, witness(care))
            continue
        if not kinds:
            # paused iteration (or nothing happened)
            okk = o.kind == "stop" and Mx.AND(care, Mx.NOT(paused)) == 0
            res.ob(okk)
            if not okk:
                res.finding("iteration|empty", "an unpaused iteration executes no instruction", witness(Mx.AND(care, Mx.NOT(paused)) or care))
            seen["paused"] = Mx.OR(seen["paused"], care)
            continue
        # a complete iteration
        exp_cross = Mx.AND(care, crossing)
        has_sync = "sync" in kinds
        expect = ["try_interrupt", "fetch", "exec"] + (["sync"] if has_sync else []) + ["modules"]
        # the rotated loop (boundary poll at the end of the iteration, AFTER the exit test) is the same sequence of phases: accepted
        # when the back-edge iteration ends with the poll and the iteration that returns Ok at the exit address does not poll
        rot = expect[1:] + (["try_interrupt"] if o.kind == "stop" else [])
        if kinds == rot and kinds != expect:
            schemes.add("rotated")
            kinds_ok = True
        else:
            kinds_ok = kinds == expect
            if kinds_ok:
                schemes.add("poll-first")
        res.ob(kinds_ok)
        if not kinds_ok:
            res.finding("iteration|effects", "iteration performs %r, expected %r" % (kinds, expect), witness(care))
            continue
        res.ob(Mx.AND(care, paused) == 0)
        # (4) sync exactly at the threshold
        if has_sync:
            bad = Mx.AND(care, Mx.NOT(crossing))
        else:
            bad = Mx.AND(care, crossing)
        res.ob(bad == 0)
        if bad != 0:
            res.finding("sync|threshold", "sync message %s although sync_count + state %s 2,000,000" % ("emitted" if has_sync else "missing", "<" if has_sync else ">="), witness(bad))
        # (3) time base
        def same(v, ref, what, key):
            okk = isinstance(v, Int) and len(v.bits) == len(ref) and Mx.AND(care, Mx.NOT(bv.eq(v.bits, ref))) == 0
            res.ob(okk)
            if not okk:
                c = care if not isinstance(v, Int) or len(v.bits) != len(ref) else Mx.AND(care, Mx.NOT(bv.eq(v.bits, ref)))
                res.finding(key, what, witness(c))
        same(vis["state_sum"], new_sum, "the state total does not advance by 3 x the charge returned by exec", "timebase|state_sum")
        same(vis["cpu_state_sum"], new_sum, "bus.cpu_state_sum is not the new state total when the iteration ends", "timebase|bus-mirror")
        me = [e for e in st.eff if e[0] == "modules"][0]
        marg = me[1]
        okk = isinstance(marg, Int) and Mx.AND(care, Mx.NOT(bv.eq(bv.zext(marg.bits, 64), state64))) == 0
        res.ob(okk)
        if not okk:
            res.finding("timebase|modules-arg", "the peripherals are not given the amount that was added to the state total", witness(care))
        same(me[2], new_sum, "bus.cpu_state_sum is not yet updated when the peripherals run", "timebase|mirror-before-modules")
        if has_sync:
            se = [e for e in st.eff if e[0] == "sync"][0]
            same(se[1], new_sum, "the sync message does not carry the new state total", "sync|value")
        sc = vis.get("sync_count") if o.kind == "stop" else None
        if o.kind == "stop":
            exp_sc = bv.add(sync, state64)
            if has_sync:
                exp_sc = bv.sub(exp_sc, bv.const(K_SYNC, 64))
            same(sc, exp_sc, "sync_count is not advanced by the state / reduced by 2,000,000 at a crossing", "sync|counter")
            # invariant preserved
            okk = isinstance(sc, Int) and Mx.AND(care, Mx.NOT(bv.ult(sc.bits, bv.const(K_SYNC, 64)))) == 0
            res.ob(okk)
            if not okk:
                res.finding("sync|invariant", "sync_count can stay at or above 2,000,000 after an iteration (a crossing would be skipped)", witness(care))
        # (2) exit
        if o.kind == "return":
            okk = isinstance(o.value, Enum) and o.value.variant == models.OK and Mx.AND(care, Mx.NOT(at_exit)) == 0
            res.ob(okk)
            if not okk:
                res.finding("exit|ok-without-exit-address", "run returns Ok although PC != exit address", witness(Mx.AND(care, Mx.NOT(at_exit)) or care))
            seen["ok_exit"] = Mx.OR(seen["ok_exit"], care)
        elif o.kind == "stop":
            bad = Mx.AND(care, at_exit)
            res.ob(bad == 0)
            if bad != 0:
                res.finding("exit|continues-at-exit-address", "the loop continues although PC == exit address", witness(bad))
            seen["back"] = Mx.OR(seen["back"], care)
        else:
            res.errors.append("unexpected outcome %s" % o.kind)
        if len(res.samples) < 6:
            res.samples.append({"outcome": o.kind, "effects": kinds, "tags": list(st.tags)})
    res.ob(len(schemes) <= 1)
    if len(schemes) > 1:
        res.finding("iteration|mixed-order", "some iterations poll for interrupts before the instruction and others after it")
    res.inventory["iteration_scheme"] = sorted(schemes)
    for k in ("ok_exit", "back", "err", "paused"):
        res.ob(seen[k] != 0)
        if seen[k] == 0:
            res.errors.append("no trace of kind %s was analysed (vacuous)" % k)
    res.distinct = sum(1 for k in seen if seen[k] != 0)
    # bound: one iteration adds at most 255*3 < K
    res.ob(255 * 3 < K_SYNC)
    # the constant itself
    ksrc = facts.consts.get("cpu::SYNC_MESSAGE_INTERVAL")
    if ksrc is not None:
        res.ob(int(ksrc["v"]["int"]) == K_SYNC)
        if int(ksrc["v"]["int"]) != K_SYNC:
            res.finding("sync|constant", "SYNC_MESSAGE_INTERVAL is %s, the property fixes 2,000,000" % ksrc["v"]["int"])
    # message text of the sync message
    sm = facts.body(facts.find("send_sync_message")[0])
    strs = []
    fields_used = []
    for bl in sm["blocks"]:
        for s in bl["st"]:
            if s["k"] == "assign":
                r = s["r"]
                for o_ in ([r.get("o")] if r.get("o") else []) + r.get("ops", []):
                    if o_ and o_["k"] == "const" and "str" in o_["v"]:
                        strs.append(o_["v"]["str"])
                if r["k"] == "ref":
                    for pr in r["p"]["p"]:
                        if pr["k"] == "field":
                            fields_used.append(pr["n"])
        t = bl["term"]
        if t["k"] == "call":
            for a in t["args"]:
                if a["k"] == "const" and "str" in a["v"]:
                    strs.append(a["v"]["str"])
    res.inventory["sync_message_strings"] = strs
    res.inventory["sync_message_fields"] = fields_used
    def mentions_field(x, name):
        if isinstance(x, dict):
            if x.get("k") == "field" and x.get("n") == name:
                return True
            return any(mentions_field(v, name) for v in x.values())
        if isinstance(x, list):
            return any(mentions_field(v, name) for v in x)
        return False
    okk = "state_sum" in fields_used or mentions_field(sm["blocks"], "state_sum")
    res.ob(okk)
    if not okk:
        if sm.get("argc", 1) > 1 or any(t_["k"] == "call" and (t_["callee"]["path"] or "") in facts.bodies for t_ in (bl_["term"] for bl_ in sm["blocks"])):
            res.errors.append("send_sync_message takes the value from a parameter or a helper: where the text comes from is not followed by this rule (not decidable)")
        else:
            res.finding("sync|text-field", "send_sync_message does not format the state total")
    # nondeterminism sources reachable from run
    cg = cfgmod.CallGraph(facts)
    k_run = facts.body("cpu::Cpu::run")["key"]
    reach = cg.reachable(k_run)
    bad = sorted(x for x in reach if any(n in x for n in NONDET))
    res.ob(not bad)
    for x in bad:
        res.finding("determinism|source|%s" % x, "a nondeterminism source (%s) is reachable from run: %s" % (x, " -> ".join(cg.path(k_run, x) or [])))
    res.inventory["bodies_reachable_from_run"] = len([x for x in reach if x in facts.bodies])
    # host-time arithmetic must not be able to stop the run: Duration::from_secs_f64 panics on a negative or
    # non-finite argument; its argument must be non-negative by construction (sign analysis of the def-use chain)
    import floatsign
    nfs = 0
    for k in sorted(x for x in reach if x in facts.bodies):
        b = facts.bodies[k]
        gg = None
        for bl in b["blocks"]:
            t = bl["term"]
            if t["k"] == "call" and (t["callee"]["path"] or "").startswith("std::time::Duration::from_secs_f"):
                gg = gg or cfgmod.Cfg(b)
                nfs += 1
                okk, why, host = floatsign.analyse(facts, b, gg, t["args"][0])
                res.ob(okk)
                if not okk:
                    res.finding("pacing|panic|negative-duration|%s" % k.split("::")[-1],
                                "%s (line %s) converts a value to a Duration that is not non-negative by construction (%s)%s: "
                                "Duration::from_secs_f64 panics on a negative value, so whether the program runs to its exit depends on the host"
                                % (k, t["ln"], why, ", computed from host time" if host else ""))
    res.inventory["float_to_duration_sites"] = nfs
    res.floor("traces of the generalised iteration", res.evaluations, 8)
    res.floor("bodies reachable from run", res.inventory["bodies_reachable_from_run"], 300)
