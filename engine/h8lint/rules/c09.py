"""C09 - the guest address space: region table, no aliasing, plain stores.

Bus::read and Bus::write are analysed with a symbolic 32-bit address over a symbolic Bus
whose backing stores are array abstractions.  Decided for all 2^32 addresses at once:
(1) the set of addresses with an Ok result is exactly the five regions, identical for read
and write, the rest returns Err and touches nothing; no index check can fail;
(2) inside a region the access goes to one store at index addr - START (injective), the
same store/index for read and write, distinct stores for distinct regions;
(3) a write to a plain location performs exactly one store of the written value and no
other store; port DDR/DR addresses are routed to the port handlers only;
(4) every other writer of the backing stores in the crate is enumerated (who-may-write);
(5) the 18 CPU access helpers read/write_abs{8,16,24}_{b,w,l} are analysed over the
Bus::read / Bus::write summaries: exactly `size` byte accesses at EA+i, most significant byte
first, a read returns the big-endian composition, Ok iff every byte access succeeded
(isa_extra.check_access_helpers)."""
import bv
import isacheck
import models
from busmodel import BusModel, BUS_ROOT, module_models
from interp import Enum, Int, Interp, Opaque, Ref, SymArr, UNIT

REGIONS = [
    ("vector area", 0x000000, 0x0000FF),
    ("DRAM", 0x400000, 0x5FFFFF),
    ("I/O registers 1", 0xFEE000, 0xFEE0FF),
    ("on-chip RAM", 0xFFBF20, 0xFFFF1F),
    ("I/O registers 2", 0xFFFF20, 0xFFFFE9),
]
DDR = (0xFEE000, 0xFEE00A)
DR = (0xFFFFD0, 0xFFFFDA)

# bodies allowed to write a backing store, with the reason (who-may-write table)
ALLOWED_WRITERS = {
    "bus::Bus::write": "the CPU write path itself",
    "bus::Bus::new": "construction",
    "ioport::<impl bus::Bus>::write_dr": "port data register owned by the I/O port (C16)",
    "ioport::<impl bus::Bus>::on_write_ddr": "port direction register owned by the I/O port (C16)",
    "ioport::<impl bus::Bus>::write_port": "external pin levels (not guest memory) (C16)",
    "modules::timer8::Timer8_0::update_timer8_0": "TCNT0/TCSR0 owned by the 8-bit timer (C17)",
    "elf::load": "program loader, before execution starts (C11)",
}


def in_range(addr, lo, hi):
    return bv.M.AND(bv.ule(bv.const(lo, 32), addr), bv.ule(addr, bv.const(hi, 32)))


def witness(c):
    return isacheck.group_witness(bv.M.describe_assign(bv.M.sat_one(c)))


imprecise_seen = {}


def make(facts):
    bv.reset()
    bm = BusModel(facts)
    ms, pats = models.standard_models()
    ip = Interp(facts, primitives={}, models=ms)
    ip.pattern_models = pats
    module_models(ip)
    ip.log_arr = True
    return bm, ip


def cache_coherence(facts, res, entry_keys=None):
    """Caches in front of guest memory, second rule (partial invalidation).  A function that stores a value derived from Bus::read into a
    field of its receiver through a Cell / by assignment and reads it back later FILLS a cache.  Every constant address it (or anything it
    calls) reads when filling is a SOURCE of the cache.  Necessary condition for coherence: a Bus::write to each source address that
    changes the stored byte must change, on every successful path, some non-store field of the Bus that the filling code reads (a dirty
    flag, a generation counter) - otherwise the cached decode survives the write.  Decided per source address by interpreting Bus::write.
    Returns the findings as (key, message)."""
    import cfg as cfgmod_
    import json as json_
    out = []
    cg = cfgmod_.CallGraph(facts)
    k_write = facts.body("bus::Bus::write")["key"]
    busfields = facts.struct_fields("bus::Bus")
    READ_SUFFIX = ("bus::Bus::read",)
    fills = []
    for k, b in facts.bodies.items():
        if entry_keys is not None and not any(k == e_ or k in cg.reachable(e_) for e_ in entry_keys):
            continue
        txt = None
        has_read = any(bl["term"]["k"] == "call" and any((bl["term"]["callee"]["path"] or "").endswith(r_) for r_ in READ_SUFFIX) for bl in b["blocks"])
        sets_ = []
        for bl in b["blocks"]:
            t = bl["term"]
            if t["k"] == "call" and "cell::Cell" in (t["callee"]["path"] or "") and (t["callee"]["path"] or "").split("::")[-1] in ("set", "replace") and len(t["args"]) >= 2:
                a1 = t["args"][1]
                if a1["k"] in ("copy", "move"):
                    sets_.append(t)
        if has_read and sets_:
            # is a stored value derived from a bus read?  (closure over the body's locals)
            tainted = set()
            for bl in b["blocks"]:
                t = bl["term"]
                if t["k"] == "call" and any((t["callee"]["path"] or "").endswith(r_) for r_ in READ_SUFFIX):
                    tainted.add(t["dest"]["l"])
            changed = True
            while changed:
                changed = False
                for bl in b["blocks"]:
                    for s_ in bl["st"]:
                        if s_["k"] == "assign":
                            if txt is None:
                                txt = True
                            srcs = json_.dumps(s_["r"])
                            if s_["p"]["l"] not in tainted and any('"l": %d,' % l_ in srcs or '"l": %d}' % l_ in srcs for l_ in tainted):
                                tainted.add(s_["p"]["l"])
                                changed = True
                    t = bl["term"]
                    if t["k"] == "call" and t["dest"]["l"] not in tainted and any(a_.get("k") in ("copy", "move") and a_["p"]["l"] in tainted for a_ in t["args"]):
                        tainted.add(t["dest"]["l"])
                        changed = True
            if any(t["args"][1]["p"]["l"] in tainted for t in sets_):
                fills.append(k)
    res.inventory["caches_filled_from_guest_memory"] = [k.split("::")[-1] for k in fills]
    if not fills:
        return out
    for k in fills:
        scope = [k] + sorted(x for x in cg.reachable(k) if x in facts.bodies)
        sources = set()
        readfields = set()
        for k2 in scope:
            for bl in facts.bodies[k2]["blocks"]:
                t = bl["term"]
                if t["k"] == "call" and any((t["callee"]["path"] or "").endswith(r_) for r_ in READ_SUFFIX) and len(t["args"]) >= 2:
                    a1 = t["args"][1]
                    if a1["k"] == "const" and isinstance(a1.get("v"), dict) and "int" in a1["v"]:
                        sources.add(int(a1["v"]["int"]))
                txt2 = json_.dumps(bl)
                for fn_ in busfields:
                    if '"n": "%s"' % fn_ in txt2:
                        readfields.add(fn_)
        # the cached field(s), and who else writes them: when code other than the filling function stores into the cache (an invalidation
        # outside Bus::write, e.g. in a Cpu-level write wrapper) this rule cannot tell - not decidable instead of a finding
        cfields = set()
        bfill = facts.bodies[k]
        for bl in bfill["blocks"]:
            t = bl["term"]
            if t["k"] == "call" and "cell::Cell" in (t["callee"]["path"] or "") and (t["callee"]["path"] or "").split("::")[-1] in ("set", "replace") and t["args"] and t["args"][0].get("k") in ("copy", "move"):
                l0 = t["args"][0]["p"]["l"]
                for bl2 in bfill["blocks"]:
                    for s_ in bl2["st"]:
                        if s_["k"] == "assign" and s_["p"]["l"] == l0 and s_["r"]["k"] in ("ref", "rawptr"):
                            fl_ = [pr["n"] for pr in s_["r"]["p"]["p"] if pr["k"] == "field"]
                            if fl_:
                                cfields.add(fl_[-1])      # the cell itself (last field of the place)
        cfields -= set(busfields)
        other_writers = []
        for k3, b3 in facts.bodies.items():
            if k3 == k or k3.endswith("::new"):
                continue
            txt3 = json_.dumps(b3)
            if any('"n": "%s"' % cf in txt3 for cf in cfields) and ("cell::Cell" in txt3 or '"k": "assign"' in txt3):
                # does it store (Cell::set / replace / assignment through the field)?
                for bl in b3["blocks"]:
                    t = bl["term"]
                    if t["k"] == "call" and "cell::Cell" in (t["callee"]["path"] or "") and (t["callee"]["path"] or "").split("::")[-1] in ("set", "replace", "take") and t["args"] and t["args"][0].get("k") in ("copy", "move"):
                        l3 = t["args"][0]["p"]["l"]
                        for bl4 in b3["blocks"]:
                            for s4 in bl4["st"]:
                                if s4["k"] == "assign" and s4["p"]["l"] == l3 and s4["r"]["k"] in ("ref", "rawptr"):
                                    fl4 = [pr["n"] for pr in s4["r"]["p"]["p"] if pr["k"] == "field"]
                                    if fl4 and fl4[-1] in cfields:
                                        other_writers.append(k3)
                    for s_ in bl["st"]:
                        fl3 = [pr["n"] for pr in s_["p"]["p"] if pr["k"] == "field"] if s_["k"] == "assign" else []
                        if fl3 and fl3[-1] in cfields:
                            other_writers.append(k3)
        if other_writers:
            res.errors.append("cache rule: %s is also written by %s: whether that is a sufficient invalidation is not decidable by this rule" % (sorted(cfields), sorted(set(x.split("::")[-1] for x in other_writers))[:3]))
            continue
        bm0 = BusModel(facts)
        ctl = sorted(f_ for f_ in readfields if f_ not in bm0.stores)
        for a in sorted(sources):
            bm, ip = make(facts)
            Mx = bv.M
            val = bv.data_bv("val", 8)
            mem = {}
            busref = bm.fresh(mem)
            c = facts.find("write_registers")
            if len(c) == 1:
                ip.primitives[c[0]] = lambda ip_, st, fr, t, args: UNIT
            for nm in ("on_write_ddr", "on_write_dr"):
                c = facts.find(nm)
                if len(c) == 1:
                    ip.primitives[c[0]] = lambda ip_, st, fr, t, args: Enum(models.OK, [UNIT])
            before = {f_: mem[BUS_ROOT].fields[bm.fi[f_]] for f_ in ctl}
            outs = ip.run_all(k_write, [busref, Int(bv.const(a, 32)), Int(val)], mem)
            for o in outs:
                st = o.state
                if o.kind != "return" or not isinstance(o.value, Enum) or o.value.variant != models.OK:
                    continue
                if any(t_ in st.tags for t_ in ("opaque-switch", "opaque-assert", "unknown-callee")):
                    res.errors.append("cache rule: Bus::write(0x%x) is not followed precisely: not decidable" % a)
                    continue
                stored = [w for n_ in bm.stores for w in bm.store_of(st, n_).writes]
                if not stored:
                    continue          # the value was equal to the stored one (or nothing is stored): nothing can go stale
                changed_ctl = [f_ for f_ in ctl if repr(st.mem[BUS_ROOT].fields[bm.fi[f_]]) != repr(before[f_])]
                res.ob(bool(changed_ctl))
                if not changed_ctl:
                    out.append(("cache|%s|not-invalidated-by|0x%x" % (k.split("::")[-1], a),
                                "%s keeps values decoded from guest memory (sources: %s) and a write to H'%06X - one of the addresses it reads when filling - changes none of the "
                                "fields it consults (%s): the cached decode survives the write and later results depend on history, not on the current register"
                                % (k, ", ".join("H'%06X" % x for x in sorted(sources)), a, ", ".join(ctl) or "none")))
                    break
    return out


def store_writers(facts, stores):
    """who-may-write: every body that stores into (or takes a mutable pointer to) a backing store"""
    out = {}
    for key, b in facts.bodies.items():
        prov = {}   # local -> store name (pointer provenance, flow-insensitive on single-assignment temps)

        def place_store(p, prov=prov):
            name = prov.get(p["l"])
            for pr in p["p"]:
                if pr["k"] == "field" and pr["n"] in stores:
                    name = pr["n"]
            return name
        changed = True
        n = 0
        while changed and n < 6:
            changed = False
            n += 1
            for bl in b["blocks"]:
                for s in bl["st"]:
                    if s["k"] != "assign":
                        continue
                    r = s["r"]
                    src = None
                    if r["k"] == "use" and r["o"]["k"] in ("copy", "move"):
                        src = place_store(r["o"]["p"])
                    elif r["k"] in ("ref", "rawptr"):
                        src = place_store(r["p"])
                    elif r["k"] == "cast" and r["o"]["k"] in ("copy", "move"):
                        src = place_store(r["o"]["p"])
                    if src and not s["p"]["p"] and prov.get(s["p"]["l"]) != src:
                        prov[s["p"]["l"]] = src
                        changed = True
                t = bl["term"]
                if t["k"] == "call" and not t["dest"]["p"]:
                    # slice/index helpers returning a pointer into their argument
                    p = t["callee"]["path"] or ""
                    if any(x in p for x in ("index_mut", "deref_mut", "as_mut", "IndexMut")):
                        for a in t["args"]:
                            if a["k"] in ("copy", "move"):
                                src = place_store(a["p"])
                                if src and prov.get(t["dest"]["l"]) != src:
                                    prov[t["dest"]["l"]] = src
                                    changed = True
        for bl in b["blocks"]:
            for s in bl["st"]:
                if s["k"] != "assign":
                    continue
                name = place_store(s["p"])
                # a store THROUGH the field (element write), not the initialisation of a temp
                if name and any(pr["k"] in ("deref", "index", "field") for pr in s["p"]["p"]) and s["p"]["p"] and not (len(s["p"]["p"]) == 0):
                    if any(pr["k"] == "index" or pr["k"] == "cindex" for pr in s["p"]["p"]) or any(pr["k"] == "field" and pr["n"] == name for pr in s["p"]["p"]):
                        out.setdefault(key, set()).add(name)
                r = s["r"]
                if r["k"] in ("ref", "rawptr") and r["mut"]:
                    name = place_store(r["p"])
                    if name:
                        out.setdefault(key, set()).add(name)
            t = bl["term"]
            if t["k"] == "call":
                p = t["callee"]["path"] or ""
                if any(x in p for x in ("copy_from_slice", "index_mut", "fill", "swap", "clone_from")):
                    for a in t["args"][:1]:
                        if a["k"] in ("copy", "move"):
                            name = place_store(a["p"])
                            if name:
                                out.setdefault(key, set()).add(name)
    return out


def run(ctx, res):
    facts = ctx["facts"]
    imprecise_seen.clear()
    res.explanation = __doc__.split("\n\n", 1)[1].replace("\n", " ")
    res.rule = "forall addr in 2^32, value: outcome/effects of Bus::read, Bus::write == region table + (store, addr-START) map; who-may-write table over all bodies"
    res.trusted = ["rustc MIR", "h8facts", "interp.py/models.py transfer functions", "bdd.py", "region table of rules/c09.py (from the property statement)"]
    res.assumptions = ["on_write_ddr/on_write_dr and ModuleManager::write_registers are summarised here (C16/C17 analyse them)",
                       "Weak::upgrade of the module manager succeeds (the Cpu owns the Rc)"]
    res.not_decided = ["the history clause as a whole: it is the conjunction of the single-step frame facts (2)-(4) by induction, which is stated, not mechanised"]
    res.exhaustive = True
    k_read = facts.body("bus::Bus::read")["key"]
    k_write = facts.body("bus::Bus::write")["key"]
    Mx = None
    acc = {}
    region_store = {}
    for which, key in (("read", k_read), ("write", k_write)):
        bm, ip = make(facts)
        Mx = bv.M
        addr = bv.top_bv("addr", 32, 20)
        val = bv.data_bv("val", 8)
        mem = {}
        busref = bm.fresh(mem)
        ports = []
        modw = []

        def p_port(kind):
            def f(ip_, st, fr, t, args):
                st.add_eff(("port", kind, args[1].bits, args[2].bits))
                return Enum(models.OK, [UNIT])
            return f

        def p_modw(ip_, st, fr, t, args):
            st.add_eff(("modwrite", args[1].bits, args[2].bits))
            return UNIT
        import cfg as cfgmod0
        reach_w = cfgmod0.CallGraph(facts).reachable(k_write)
        ports_by_name = True
        for nm, kind in (("on_write_ddr", "ddr"), ("on_write_dr", "dr")):
            c = facts.find(nm)
            if len(c) != 1:
                res.errors.append("anchor %s: %r" % (nm, c))
                return
            if c[0] not in reach_w:
                ports_by_name = False      # the port logic is not entered through the handlers this rule knows: it is followed, and the
                continue                   # DDR / DR windows are left to C16's composed rule (Bus::write against the per-bit reference)
            ip.primitives[c[0]] = p_port(kind)
        c = facts.find("send_io_port_value")
        if len(c) == 1:
            def p_msg(ip_, st, fr, t, args):
                st.add_eff(("portmsg",))
                return Enum(models.OK, [UNIT])
            ip.primitives[c[0]] = p_msg
        res.inventory["port_windows"] = "summarised handlers" if ports_by_name else "followed inline; decided by C16 (composed rule)"
        c = facts.find("write_registers")
        if len(c) != 1:
            res.errors.append("anchor write_registers: %r" % c)
            return
        ip.primitives[c[0]] = p_modw
        args = [busref, Int(addr)] + ([Int(val)] if which == "write" else [])
        outs = ip.run_all(key, args, mem)
        if ip.unknown_callees:
            res.errors.append("unmodelled callees in Bus::%s: %r" % (which, ip.unknown_callees))
        okset = 0
        total = 0
        for o in outs:
            st = o.state
            total = Mx.OR(total, st.pc)
            if any(t in st.tags for t in ("opaque-switch", "opaque-assert", "unknown-callee")):
                res.errors.append("imprecise trace in Bus::%s: %r" % (which, st.tags))
                imprecise_seen[which] = True
                continue     # an imprecisely followed trace decides nothing
            if o.kind == "panic" and any(t in st.tags for t in ("opaque-switch", "opaque-assert", "unknown-callee", "unwrap-opaque")):
                continue
            if o.kind == "panic":
                res.ob(False)
                res.finding("%s|panic:%s" % (which, o.info.get("kind")), "Bus::%s can panic (%s, line %s)" % (which, o.info.get("kind"), o.info.get("line")), witness(st.pc))
                continue
            if o.kind != "return" or not isinstance(o.value, Enum):
                res.errors.append("unexpected outcome %s in Bus::%s" % (o.kind, which))
                continue
            stores_written = {n: bm.store_of(st, n).writes for n in bm.stores}
            nwrites = sum(len(w) for w in stores_written.values())
            if o.value.variant == models.ERR:
                res.ob(nwrites == 0)
                if nwrites:
                    res.finding("%s|err-modifies" % which, "a failing Bus::%s modifies a backing store" % which, witness(st.pc))
                if any(e[0] in ("port", "modwrite") for e in st.eff):
                    res.finding("%s|err-side-effect" % which, "a failing Bus::%s notifies a peripheral" % which, witness(st.pc))
                continue
            okset = Mx.OR(okset, st.pc)
            res.evaluations += 1
            for name, lo, hi in REGIONS:
                care = Mx.AND(st.pc, in_range(addr, lo, hi))
                if care == 0:
                    continue
                exp_idx_full = bv.sub(addr, bv.const(lo, 32))
                reads = [e for e in st.eff if e[0] == "arrread"]
                if which == "read":
                    res.ob(len(reads) == 1)
                    if len(reads) != 1:
                        res.finding("read|%s|access-count" % name, "reading the %s touches %d stores" % (name, len(reads)), witness(care))
                        continue
                    _, sname, idx, block = reads[0]
                    got = o.value.fields[0]
                    same_val = isinstance(got, Int) and got.bits == block
                    res.ob(same_val)
                    if not same_val:
                        res.finding("read|%s|value" % name, "the byte returned for the %s is not the stored byte unchanged" % name, witness(care))
                    sidx, sval = idx, None
                else:
                    isport = Mx.OR(in_range(addr, *DDR), in_range(addr, *DR))
                    plain = Mx.AND(care, Mx.NOT(isport))
                    portc = Mx.AND(care, isport)
                    sname = None
                    if portc != 0 and ports_by_name:
                        # routed to the port handler when the value changes, otherwise nothing happens
                        pe = [e for e in st.eff if e[0] == "port"]
                        res.ob(nwrites == 0)
                        if nwrites:
                            res.finding("write|%s|port-direct-store" % name, "a DDR/DR address is stored directly by Bus::write", witness(portc))
                        for e in pe:
                            okk = (e[2] == addr and e[3] == val)
                            res.ob(okk)
                            if not okk:
                                res.finding("write|%s|port-args" % name, "the port handler is not given the written address/value", witness(portc))
                        if len(res.samples) < 8:
                            res.samples.append({"op": "write", "region": name, "port_register": True, "handler_called": [e[1] for e in pe]})
                    if plain == 0:
                        continue
                    care = plain
                    ws = [(n_, w) for n_, w in stores_written.items() if w]
                    res.ob(len(ws) == 1 and len(ws[0][1]) == 1)
                    if not (len(ws) == 1 and len(ws[0][1]) == 1):
                        res.finding("write|%s|store-count" % name, "a write to a plain location of the %s performs %d stores" % (name, nwrites), witness(care))
                        continue
                    sname = ws[0][0]
                    sidx, sval = ws[0][1][0]
                    d = 0
                    for x, y in zip(sval, val):
                        if x != y and Mx.AND(Mx.XOR(x, y), care) != 0:
                            d = Mx.AND(Mx.XOR(x, y), care)
                            break
                    res.ob(d == 0)
                    if d != 0:
                        res.finding("write|%s|value" % name, "the byte stored in the %s is not the written byte" % name, witness(d))
                    if name.startswith("I/O"):
                        mw = [e for e in st.eff if e[0] == "modwrite"]
                        okk = len(mw) == 1 and mw[0][1] == addr and mw[0][2] == val
                        res.ob(okk)
                        if not okk:
                            res.finding("write|%s|peripheral-notify" % name, "the owning peripheral is not notified exactly once with the written address/value", witness(care))
                # index map
                nb = len(sidx)
                d = 0
                for x, y in zip(sidx, exp_idx_full[:nb]):
                    if x != y and Mx.AND(Mx.XOR(x, y), care) != 0:
                        d = Mx.AND(Mx.XOR(x, y), care)
                        break
                res.ob(d == 0)
                if d != 0:
                    res.finding("%s|%s|index" % (which, name), "the %s is not mapped at store index addr - 0x%x (aliasing)" % (name, lo), witness(d))
                # the index must fit the store (no wrap of the truncated index)
                res.ob((hi - lo) < (1 << nb) and (hi - lo) < bm.lens[sname])
                if not ((hi - lo) < bm.lens[sname]):
                    res.finding("%s|%s|store-size" % (which, name), "store %s (%d bytes) is smaller than the %s" % (sname, bm.lens[sname], name))
                prev = region_store.get(name)
                if prev is None:
                    region_store[name] = sname
                else:
                    res.ob(prev == sname)
                    if prev != sname:
                        res.finding("rw|%s|store-mismatch" % name, "read uses store %s, write uses %s for the %s" % (prev, sname, name), witness(care))
                if len(res.samples) < 8:
                    res.samples.append({"op": which, "region": name, "store": sname, "index": "addr-0x%x" % lo, "index_bits": nb})
        if imprecise_seen.get(which):
            acc[which] = okset
            continue      # the accepted set cannot be compared when some traces were not followed precisely
        if total != 1:
            res.errors.append("traces of Bus::%s do not cover all addresses" % which)
        acc[which] = okset
        exp = 0
        for name, lo, hi in REGIONS:
            exp = Mx.OR(exp, in_range(addr, lo, hi))
        d = Mx.XOR(okset, exp)
        # okset may mention value / previous-content variables (port value-changed test): project them away
        extra = set(r for r in Mx.support(okset) if not (20 <= r < 52))
        if extra:
            okall = Mx.exists(okset, extra)
            d = Mx.XOR(okall, exp)
        res.ob(d == 0)
        if d != 0:
            w = witness(d)
            a = int(w.get("addr", "0x0"), 16)
            res.finding("%s|region-table" % which, "address 0x%x is %s by Bus::%s but the address map says otherwise" % (a, "accepted" if Mx.eval(okset, Mx.sat_one(d)) else "rejected", which), w)
        res.distinct += 1
    names = list(region_store.values())
    res.ob(len(set(names)) == len(names) and len(names) == 5)
    if len(set(names)) != len(names):
        res.finding("regions|shared-store", "two regions share a backing store: %r" % region_store)
    # who-may-write
    bm = BusModel(facts)
    writers = store_writers(facts, set(bm.stores))
    res.inventory["store_writers"] = {k: sorted(v) for k, v in writers.items()}
    import cfg as cfgmod
    cg = cfgmod.CallGraph(facts)

    def owned(k, seen=()):
        """an enumerated owner, or a helper that is only ever called (transitively) from enumerated owners -
        such helpers are inlined by the analyses of their owners (Bus::write here, C16 / C17 / C11 for the others)"""
        if k in ALLOWED_WRITERS:
            return True
        if k in seen:
            return True
        cs = cg.callers(k)
        return bool(cs) and all(owned(c, seen + (k,)) for c in cs)
    for k, v in writers.items():
        okw = owned(k)
        res.ob(okw)
        if not okw:
            if not cg.callers(k):
                res.errors.append("%s writes backing store(s) %s but has no direct caller in the crate (dead code or an indirect call): not decidable" % (k, sorted(v)))
            else:
                res.finding("writer|%s" % k, "%s writes backing store(s) %s of the Bus and is reachable from outside the enumerated owners (%s)" % (k, sorted(v), ", ".join(c.split("::")[-1] for c in cg.callers(k)[:4])))
    res.floor("bodies writing a backing store", len(writers), 4)
    res.floor("regions mapped", len(region_store), 5)
    res.inventory["region_store"] = region_store
    res.inventory["store_lengths"] = bm.lens
    # (5) word / long composition in the CPU access helpers
    import isa_extra
    r = isa_extra.check_access_helpers(facts)
    for i in range(r["ob"][0]):
        res.ob(i < r["ob"][1])
    for f in r["findings"]:
        res.finding("helper|" + f["key"], f["msg"], f["witness"])
    res.floor("access helpers analysed", len(r["helpers"]), 18)
    res.inventory["access_helpers"] = r["helpers"]
    # (6) no stale copies of guest memory: a value read through the bus that is stored in a field of the emulator other than the
    # architectural registers, and read again later, is a cache in front of guest memory; guest stores go through Bus::write,
    # which must then be able to invalidate it (it cannot reach Cpu-side fields at all)
    stale_copies(facts, res)


ARCH_FIELDS = ("er", "pc", "ccr")
READERS = ("read_abs", "Bus::read", "read_ern", "read_inc_ern", "read_dec_ern", "read_disp")


def stale_copies(facts, res):
    import cfg as cfgmod
    cg = cfgmod.CallGraph(facts)
    k_run = facts.body("cpu::Cpu::run")["key"]
    k_write = facts.body("bus::Bus::write")["key"]
    reach = [k for k in cg.reachable(k_run) if k in facts.bodies and not k.startswith("bus::") and not k.startswith("elf::") and "ioport" not in k and not k.startswith("modules::")]
    write_reach = set(cg.reachable(k_write)) | {k_write}

    def locals_in(x, acc):
        if isinstance(x, dict):
            if "l" in x and isinstance(x["l"], int):
                acc.add(x["l"])
            for v in x.values():
                locals_in(v, acc)
        elif isinstance(x, list):
            for v in x:
                locals_in(v, acc)
        return acc
    copies = {}      # field path -> (body, line)
    nstores = 0
    for k in reach:
        b = facts.bodies[k]
        # locals derived from a bus read (forward closure through every rvalue kind and through calls such as Try::branch)
        tainted = set()
        for bl in b["blocks"]:
            t = bl["term"]
            if t["k"] == "call" and any(r in (t["callee"]["path"] or "") for r in READERS) and not t["dest"]["p"]:
                tainted.add(t["dest"]["l"])
        if not tainted:
            continue
        changed = True
        while changed:
            changed = False
            for bl in b["blocks"]:
                for s_ in bl["st"]:
                    if s_["k"] == "assign" and not s_["p"]["p"] and s_["p"]["l"] not in tainted and locals_in(s_["r"], set()) & tainted:
                        tainted.add(s_["p"]["l"])
                        changed = True
                t = bl["term"]
                if t["k"] == "call" and not t["dest"]["p"] and t["dest"]["l"] not in tainted and locals_in(t["args"], set()) & tainted:
                    p_ = t["callee"]["path"] or ""
                    if p_.endswith("Try>::branch") or p_.endswith("::from_residual") or "with_context" in p_ or "Option::<T>::Some" in p_ or p_.startswith("std::convert"):
                        tainted.add(t["dest"]["l"])
                        changed = True
        for bl in b["blocks"]:
            for s_ in bl["st"]:
                if s_["k"] != "assign" or not s_["p"]["p"]:
                    continue
                if not (locals_in(s_["r"], set()) & tainted):
                    continue
                pl = s_["p"]
                if pl["l"] != 1 or not pl["p"] or pl["p"][0]["k"] != "deref":
                    continue       # only stores through the receiver (&mut self)
                fields = [pr["n"] for pr in pl["p"] if pr["k"] == "field"]
                if not fields or fields[0] in ARCH_FIELDS or fields[0] == "bus":
                    continue
                nstores += 1
                copies.setdefault(".".join(str(f_) for f_ in fields), (k, s_.get("ln")))
    res.inventory["memory_derived_stores_outside_registers"] = {f_: "%s:%s" % v_ for f_, v_ in copies.items()}
    for fpath, (k, ln) in sorted(copies.items()):
        last = fpath.split(".")[-1]
        # is the field read anywhere (as a source) - otherwise it is write-only bookkeeping
        read_somewhere = False
        written_by_bus_write = False
        for k2, b2 in facts.bodies.items():
            for bl in b2["blocks"]:
                for s_ in bl["st"]:
                    if s_["k"] != "assign":
                        continue
                    if '"n": "%s"' % last in __import__("json").dumps(s_["r"]):
                        read_somewhere = True
                    if k2 in write_reach and any(pr["k"] == "field" and pr["n"] == last for pr in s_["p"]["p"]):
                        written_by_bus_write = True
        okk = (not read_somewhere) or written_by_bus_write
        res.ob(okk)
        if not okk:
            res.finding("stale-copy|%s" % fpath, "%s (line %s) stores a value read from guest memory in the field %s, which is read again later, and nothing reachable from Bus::write "
                        "updates or invalidates it: after the guest overwrites that memory the emulator keeps using the old value" % (k, ln, fpath))
