"""C10 - interrupt delivery.

(1) mask / one entry per request: try_interrupt is analysed by the abstract interpreter
    with a symbolic CCR, the request queue summarised as pop effects and interrupt() as
    an entry effect: a request is popped and entered only on traces whose path condition
    implies CCR.I == 0, the popped number is the number entered, exactly once, and with
    I set nothing is popped (the request stays pending);
(2) boundary: interrupt() is called only from try_interrupt, try_interrupt only from
    run, where it precedes fetch and exec in the iteration (C13 effect order) and is not
    reachable from exec;
(3) queue discipline: the request queue is touched only by push_back (request_interrupt)
    and pop_front (try_interrupt) - FIFO, nothing is cleared, deduplicated or reordered;
(4) requesters pass constant vector numbers in 1..=63;
(5) the entry sequence itself is C06's rule (Cpu::interrupt against the manual)."""
import bv
import cfg as cfgmod
import isa as isamod
import isacheck
import models
from interp import Agg, Enum, Int, Interp, Opaque, Ref, UNIT


def witness(c):
    return isacheck.group_witness(bv.M.describe_assign(bv.M.sat_one(c)))


def run(ctx, res):
    facts = ctx["facts"]
    res.explanation = __doc__.split("\n\n", 1)[1].replace("\n", " ")
    res.rule = "traces of try_interrupt: (pop or enter) => pc implies !CCR.I, entered == popped, once; who-may-call / who-may-touch tables over all bodies"
    res.trusted = ["rustc MIR", "h8facts", "interp.py/models.py", "bdd.py"]
    res.assumptions = ["VecDeque::push_back/pop_front are FIFO (library)", "Cpu::interrupt is summarised here (decided by C06)"]
    res.not_decided = ["'the program computes the same result as without interrupts' (a property of executions and of handler code)",
                       "exactly-once delivery over whole executions: it is the closure of (1) and (3), stated not mechanised"]
    bv.reset()
    I = isamod.Isa(facts)
    ms, pats = models.standard_models()
    ip = Interp(facts, primitives={}, models=ms)
    ip.pattern_models = pats
    k_try = facts.find("try_interrupt")
    k_int = [k for k in facts.find("interrupt") if "impl cpu::Cpu" in k]
    k_req = facts.find("request_interrupt")
    if len(k_try) != 1 or len(k_int) != 1 or len(k_req) != 1:
        res.errors.append("anchors: try_interrupt %r interrupt %r request_interrupt %r" % (k_try, k_int, k_req))
        return
    k_try, k_int, k_req = k_try[0], k_int[0], k_req[0]

    def m_pop(ip_, st, fr, t, args):
        n = st.count("pop")
        v = bv.data_bv("req%d" % n, 8)
        i = st.count("ctl")
        some = bv.ctl_var("nonempty", i)
        st.add_eff(("pop", n))
        return [(some, Enum(models.SOME, [Int(v)]), lambda s: s.add_eff(("popped", v))), (bv.M.NOT(some), Enum(models.NONE, []))]

    def p_enter(ip_, st, fr, t, args):
        st.add_eff(("enter", args[1].bits if isinstance(args[1], Int) else None))
        return [(None, Enum(models.OK, [UNIT])), (None, Enum(models.ERR, [Opaque("e")]), lambda s: s.tag("enter-failed"))]
    ip.pattern_models.append((lambda p, f: "VecDeque" in p and p.endswith("pop_front"), m_pop))
    ip.primitives[k_int] = p_enter
    cpu = I.fresh_cpu()
    outs = ip.run_all(k_try, [Ref(isamod.CPU_ROOT, ())], {isamod.CPU_ROOT: cpu})
    if ip.unknown_callees:
        res.errors.append("unmodelled callees in try_interrupt: %r" % ip.unknown_callees)
    Mx = bv.M
    ibit = bv.ccr_bv()[7]
    total = 0
    masked_seen = 0
    entered_seen = 0
    for o in outs:
        st = o.state
        total = Mx.OR(total, st.pc)
        if any(t in st.tags for t in ("opaque-switch", "opaque-assert", "unknown-callee")):
            res.errors.append("imprecise trace in try_interrupt: %r" % (st.tags,))
        if o.kind == "panic":
            res.ob(False)
            res.finding("try_interrupt|panic", "try_interrupt can panic (%s)" % o.info.get("kind"), witness(st.pc))
            continue
        kinds = [e[0] for e in st.eff]
        res.evaluations += 1
        touched = [k for k in kinds if k in ("pop", "enter")]
        bad = Mx.AND(st.pc, ibit) if touched else 0
        res.ob(bad == 0)
        if bad != 0:
            res.finding("mask|%s-while-I-set" % touched[0], "a request is %s while CCR.I is set" % ("popped" if touched[0] == "pop" else "entered"), witness(bad))
        if not touched:
            masked_seen = Mx.OR(masked_seen, st.pc)
            # nothing happens: CCR and registers untouched, Ok
            cpuv = st.mem[isamod.CPU_ROOT]
            same = cpuv.fields[I.fi["ccr"]].bits == bv.ccr_bv() and cpuv.fields[I.fi["pc"]].bits == bv.data_bv("pc", 24) + (0,) * 8
            res.ob(same and o.kind == "return" and isinstance(o.value, Enum) and o.value.variant == models.OK)
            if not same:
                res.finding("mask|state-changed", "try_interrupt changes CPU state without accepting a request", witness(st.pc))
            continue
        pops = kinds.count("pop")
        popped = [e for e in st.eff if e[0] == "popped"]
        enters = [e for e in st.eff if e[0] == "enter"]
        res.ob(pops == 1)
        if pops != 1:
            res.finding("queue|pops-per-boundary", "%d requests are popped at one instruction boundary" % pops, witness(st.pc))
        res.ob(len(enters) == len(popped))
        if len(enters) != len(popped):
            res.finding("delivery|count", "%d request(s) popped but %d entered (lost or duplicated)" % (len(popped), len(enters)), witness(st.pc))
        for pe, en in zip(popped, enters):
            okk = en[1] is not None and en[1] == pe[1]
            res.ob(okk)
            if not okk:
                res.finding("delivery|vector", "the vector entered is not the number that was requested (redirected)", witness(st.pc))
        if enters:
            entered_seen = Mx.OR(entered_seen, st.pc)
        if len(res.samples) < 5:
            res.samples.append({"effects": kinds, "outcome": o.kind, "path_condition": Mx.to_expr(Mx.exists(st.pc, set(r for r in Mx.support(st.pc) if 100 <= r < 2000)))[:120]})
    if total != 1:
        res.errors.append("traces of try_interrupt do not cover all states")
    # with I set there must be a trace (nothing popped); with I clear requests are taken
    res.ob(Mx.AND(ibit, Mx.NOT(masked_seen)) == 0)
    res.ob(entered_seen != 0)
    if entered_seen == 0:
        res.finding("delivery|never", "no trace of try_interrupt enters an interrupt")
    res.distinct = len(outs)
    # ---- (2) who-may-call
    cg = cfgmod.CallGraph(facts)
    k_run = facts.body("cpu::Cpu::run")["key"]
    k_exec = facts.body("cpu::Cpu::exec")["key"]
    callers_int = cg.callers(k_int)
    callers_try = cg.callers(k_try)
    res.inventory["callers_of_interrupt"] = callers_int
    res.inventory["callers_of_try_interrupt"] = callers_try
    res.ob(callers_int == [k_try])
    if callers_int != [k_try]:
        res.finding("boundary|interrupt-callers", "Cpu::interrupt is called from %r (only try_interrupt may)" % callers_int)
    res.ob(callers_try == [k_run])
    if callers_try != [k_run]:
        res.finding("boundary|try_interrupt-callers", "try_interrupt is called from %r (only the run loop may)" % callers_try)
    reach_exec = cg.reachable(k_exec)
    for k in (k_try, k_int):
        res.ob(k not in reach_exec)
        if k in reach_exec:
            res.finding("boundary|inside-instruction|%s" % k.split("::")[-1], "interrupt entry is reachable from inside instruction execution: %s" % " -> ".join(cg.path(k_exec, k)))
    g = cfgmod.Cfg(facts.bodies[k_run])
    bt = [i for i, p, t in g.calls() if p == k_try]
    bf = [i for i, p, t in g.calls() if p == facts.body("cpu::Cpu::fetch")["key"]]
    be = [i for i, p, t in g.calls() if p == k_exec]
    okk = len(bt) == 1 and len(bf) == 1 and len(be) == 1 and g.dominates(bt[0], bf[0]) and g.dominates(bf[0], be[0])
    res.ob(okk)
    if not okk:
        res.finding("boundary|order", "in run, try_interrupt does not dominate fetch which dominates exec (blocks %r %r %r)" % (bt, bf, be))
    # ---- (3) queue discipline
    touch = {}
    for key, b in facts.bodies.items():
        for bl in b["blocks"]:
            places = []
            for s in bl["st"]:
                if s["k"] == "assign":
                    places.append(s["p"])
                    r = s["r"]
                    if "p" in r:
                        places.append(r["p"])
                    for o_ in ([r.get("o")] if r.get("o") else []) + [x for x in (r.get("a"), r.get("b")) if x] + r.get("ops", []):
                        if o_ and o_["k"] in ("copy", "move"):
                            places.append(o_["p"])
            t = bl["term"]
            if t["k"] == "call":
                for a in t["args"]:
                    if a["k"] in ("copy", "move"):
                        places.append(a["p"])
            for p in places:
                if any(pr["k"] == "field" and pr["n"] == "interrupt_requests" for pr in p["p"]):
                    touch.setdefault(key, 0)
                    touch[key] += 1
    res.inventory["bodies_touching_queue"] = sorted(touch)
    allowed = {k_req: "push_back", k_try: "pop_front"}
    for key in touch:
        if key.endswith("InterruptController::new") or "as std::clone::Clone" in key:
            continue
        res.ob(key in allowed)
        if key not in allowed:
            res.finding("queue|touched-by|%s" % key, "%s accesses the request queue (only request_interrupt and try_interrupt may)" % key)
            continue
        # the only VecDeque method called there is the allowed one
        meths = sorted(set(p.split("::")[-1] for i, p, t in cfgmod.Cfg(facts.bodies[key]).calls() if "VecDeque" in p))
        res.ob(meths == [allowed[key]])
        if meths != [allowed[key]]:
            res.finding("queue|methods|%s" % key.split("::")[-1], "%s calls %r on the request queue (expected only %s)" % (key.split("::")[-1], meths, allowed[key]))
    res.floor("bodies touching the request queue", len(touch), 2)
    # ---- (4) requesters
    nreq = 0
    for key, b in facts.bodies.items():
        for bl in b["blocks"]:
            t = bl["term"]
            if t["k"] == "call" and t["callee"]["path"] == k_req:
                nreq += 1
                a = t["args"][1]
                v = int(a["v"]["int"]) if a["k"] == "const" and "int" in a["v"] else None
                okk = v is not None and 1 <= v <= 63
                res.ob(okk)
                if not okk:
                    res.finding("requester|%s|vector" % key.split("::")[-1], "%s requests a vector that is not a constant in 1..=63 (%r)" % (key, v))
    res.inventory["request_sites"] = nreq
    res.floor("request_interrupt call sites", nreq, 3)
