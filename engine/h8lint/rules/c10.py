"""C10 - interrupt delivery.

(1) inductive controller model: the InterruptController's fields other than the queue are
    symbolic (typed), the queue is abstracted to (pending, pending >= 2) plus push / pop
    effects; request_interrupt and try_interrupt (with everything they call, interrupt()
    summarised as an entry effect) are interpreted over that state and the set of
    reachable abstract controller states is computed from InterruptController::new by a
    fixpoint.  In every reachable state: a request is popped and entered only when the
    path condition implies CCR.I == 0; the number entered is the number popped, one pop
    per boundary; with I set nothing is popped and no CPU state changes; request_interrupt
    enqueues exactly the requested number once and removes nothing; no operation other
    than push_back / pop_front / front / is_empty is applied to the queue (contains,
    clear, retain ... lose, merge or reorder requests); NO STARVATION: there is no cycle
    of boundaries with I clear and a request pending in which nothing is taken (a fast
    path or flag that can leave a pending request untaken forever is a lost request);
(2) boundary: interrupt() is called only from try_interrupt, try_interrupt only from
    run, where it precedes fetch and exec in the iteration (C13 effect order) and is not
    reachable from exec;
(3) every body that reads or writes a field of the controller is one that (1)
    interpreted (helpers are followed, so refactoring into helper functions is fine);
    a body outside that applies a non-FIFO operation to the queue is a finding, any other
    outside access makes the rule undecided (checker error);
(4) requesters pass constant vector numbers in 1..=63;
(5) the entry sequence itself is C06's rule (Cpu::interrupt against the manual)."""
import bv
import cfg as cfgmod
import isa as isamod
import isacheck
import models
from interp import Agg, Enum, Int, Interp, Opaque, Ref, UNIT


def witness(c):
    return isacheck.group_witness(bv.M.describe_assign(bv.M.sat_one(c)))


IC = "cpu::interrupt_controller::InterruptController"
# the property fixes no service order among pending requests, so any single-element enqueue / dequeue is acceptable;
# operations that drop, merge or rewrite pending requests are not
PUSH_OPS = {"push_back": 1, "push_front": 1, "insert": 2}      # method -> index of the value argument
TAKE_OPS = ("pop_front", "pop_back", "remove", "swap_remove_back", "swap_remove_front")
FIFO_OK = tuple(PUSH_OPS) + TAKE_OPS + ("new", "is_empty", "front", "len", "with_capacity", "clone", "iter", "contains", "get", "back")
NONFIFO = ("clear", "retain", "truncate", "drain", "swap", "split_off", "append", "rotate_left", "rotate_right", "resize", "retain_mut", "make_contiguous", "sort",
           "dedup", "iter_mut", "get_mut", "back_mut", "front_mut", "extend")
QUERY = ("contains", "iter", "get", "back", "binary_search", "range")
QROOT = ("h", "qabs")


_TV = {}


def timer_vectors(facts):
    """vector numbers the 8-bit timer passes to request_interrupt, as observed by the tick analysis of rules/c17"""
    if "v" not in _TV:
        try:
            from rules import c17
            import cli
            r_ = cli.Result("C17")
            c17.run({"facts": facts, "tier": "quick", "seed": 0, "prop": "C17", "arg": None}, r_)
            _TV["v"] = set(c17.OBSERVED_VECTORS) if not r_.errors else None
        except Exception:
            _TV["v"] = None
    return _TV["v"]


def controller_model(facts, res, k_try, k_int, k_req):
    """Inductive model of the interrupt controller.  The controller's fields other than the queue are
    symbolic (typed), the queue is abstracted to (non-empty, at least two) plus push/pop effects.
    request_interrupt and try_interrupt are interpreted over that state; the set of reachable abstract
    states is computed from InterruptController::new by a fixpoint, and in every reachable state:
    mask, popped == entered, one pop per boundary, one push per request, no non-FIFO operation, and no
    starvation (no cycle of boundaries with I clear and a pending request in which nothing is taken)."""
    bv.reset()
    Mx = bv.M
    visited_before = Interp.VISITED
    Interp.VISITED = set()
    I = isamod.Isa(facts)
    ict = facts.types[facts.type_by_path[IC]]
    fields = ict["variants"][0]["fields"]
    ms, pats = models.standard_models()
    ip = Interp(facts, primitives={}, models=ms)
    ip.pattern_models = pats
    def is_queue_ty(tid, depth=0):
        """the request queue itself, or a single-field wrapper struct of the crate around it (returns the nesting depth, else None)"""
        tt_ = facts.types[tid]
        if "VecDeque" in (tt_.get("path") or ""):
            return depth
        if tt_.get("k") == "adt" and tt_.get("adt") == "struct" and tt_.get("local") and depth < 2:
            fl_ = (tt_.get("variants") or [{}])[0].get("fields") or []
            if len(fl_) == 1:
                return is_queue_ty(fl_[0]["ty"], depth + 1)
        return None
    qdepth = {i: is_queue_ty(f["ty"]) for i, f in enumerate(fields)}
    qidx = [i for i, d_ in qdepth.items() if d_ is not None]
    if len(qidx) != 1:
        res.errors.append("the interrupt controller does not have exactly one VecDeque field (%d)" % len(qidx))
        return set()
    qidx = qidx[0]
    aux = []       # (field index, name, bits)
    nbits = 0
    for i, f in enumerate(fields):
        if i == qidx:
            continue
        ii = ip.int_info(f["ty"])
        if not ii:
            res.errors.append("controller field %s has a type the model cannot enumerate" % f["n"])
            return set()
        bits = bv.data_bv("ic." + f["n"], ii[0])
        aux.append((i, f["n"], bits))
        nbits += ii[0]
    if nbits > 10:
        res.errors.append("controller state has %d auxiliary bits: too large for the explicit fixpoint" % nbits)
        return set()
    q_ne = bv.ctl_var("q_ne", 700)
    q_ge2 = bv.ctl_var("q_ge2", 701)
    ibit = bv.ccr_bv()[7]
    state_nodes = [b for (_, _, bits) in aux for b in bits] + [q_ne, q_ge2]
    state_ranks = [Mx.var[n] for n in state_nodes]

    def qabs(st):
        v = st.mem[QROOT]
        return v.bits[0], v.bits[1]

    def m_push(ip_, st, fr, t, args):
        ne, ge2 = qabs(st)
        st.mem[QROOT] = Int((1, ne))
        v = args[PUSH_OPS[t["callee"]["path"].split("::")[-1]]]
        st.add_eff(("push", v.bits if isinstance(v, Int) else None))
        return UNIT

    def m_len(ip_, st, fr, t, args):
        ne, ge2 = qabs(st)
        L = bv.seq_bv("qlen%d" % st.count("qlen"), 64)
        c = Mx.AND(Mx.XOR(bv.is_zero(L), ne), Mx.NOT(Mx.XOR(bv.ult(bv.const(1, 64), L), ge2)))
        return [(c, Int(L))]

    def m_pop(ip_, st, fr, t, args):
        ne, ge2 = qabs(st)
        n = st.ctr.get("pops", 0)
        v = bv.data_bv("req%d" % n, 8)
        u = bv.ctl_var("more", 720 + st.count("more"))

        def took(s, v=v, ge2=ge2, u=u):
            s.ctr["pops"] = s.ctr.get("pops", 0) + 1
            s.mem[QROOT] = Int((ge2, Mx.AND(ge2, u)))
            s.add_eff(("pop", v))
        return [(ne, Enum(models.SOME, [Int(v)]), took), (Mx.NOT(ne), Enum(models.NONE, []), lambda s: s.add_eff(("pop-empty",)))]

    def m_front(ip_, st, fr, t, args):
        ne, ge2 = qabs(st)
        n = st.ctr.get("pops", 0)
        v = bv.data_bv("req%d" % n, 8)
        root = ("h", "front%d" % n)

        def peek(s, v=v, root=root):
            s.mem[root] = Int(v)
        return [(ne, Enum(models.SOME, [Ref(root, ())]), peek), (Mx.NOT(ne), Enum(models.NONE, []))]

    def m_is_empty(ip_, st, fr, t, args):
        ne, ge2 = qabs(st)
        return Int((Mx.NOT(ne),))

    def m_new(ip_, st, fr, t, args):
        st.mem[QROOT] = Int((0, 0))
        return Opaque("queue")

    def m_nonfifo(ip_, st, fr, t, args):
        name = t["callee"]["path"].split("::")[-1]
        st.add_eff(("nonfifo", name))
        a = bv.ctl_var("any", 740 + st.count("any"))
        b = bv.ctl_var("any", 760 + st.count("any2"))
        st.mem[QROOT] = Int((a, Mx.AND(a, b)))
        return ip_.opaque_of_type(t["dest"]["ty"], "queue-op")

    def m_query(ip_, st, fr, t, args):
        # a predicate on the queue contents: any answer is possible when the queue is not empty
        name = t["callee"]["path"].split("::")[-1]
        ne, ge2 = qabs(st)
        rt = facts.types[t["dest"]["ty"]]
        st.add_eff(("query", name))
        if rt["k"] == "bool":
            c = bv.ctl_var("ans", 780 + st.count("ans"))
            return Int((Mx.AND(ne, c),))
        # a read-only view of the contents: what is computed from it is not followed
        st.tag("unknown-callee")
        return ip_.opaque_of_type(t["dest"]["ty"], "queue-view")

    def vq(name):
        return lambda p, f: "VecDeque" in p and p.split("::")[-1] == name
    for nm, fn in (("front", m_front), ("is_empty", m_is_empty), ("new", m_new), ("with_capacity", m_new), ("len", m_len)):
        ip.pattern_models.append((vq(nm), fn))
    for nm in PUSH_OPS:
        ip.pattern_models.append((vq(nm), m_push))
    for nm in TAKE_OPS:
        ip.pattern_models.append((vq(nm), m_pop))
    for nm in NONFIFO:
        ip.pattern_models.append((vq(nm), m_nonfifo))
    for nm in QUERY:
        ip.pattern_models.append((vq(nm), m_query))

    def p_enter(ip_, st, fr, t, args):
        st.add_eff(("enter", args[1].bits if isinstance(args[1], Int) else None))
        return [(None, Enum(models.OK, [UNIT])), (None, Enum(models.ERR, [Opaque("e")]), lambda s: s.tag("enter-failed"))]
    ip.primitives[k_int] = p_enter
    ic_i = I.fi["interrupt_controller"]

    def fresh_mem():
        cpu = I.fresh_cpu()
        fs = list(cpu.fields)
        icf = [None] * len(fields)
        icf[qidx] = Opaque("queue")
        for _ in range(qdepth[qidx]):
            icf[qidx] = Agg([icf[qidx]])
        for (i, n, bits) in aux:
            icf[i] = Int(bits)
        fs[ic_i] = Agg(icf)
        return {isamod.CPU_ROOT: Agg(fs), QROOT: Int((q_ne, q_ge2))}

    def collect(outs, what):
        trs = []
        for o in outs:
            st = o.state
            if any(t_ in st.tags for t_ in ("opaque-switch", "opaque-assert", "unknown-callee")):
                res.errors.append("imprecise trace in %s: %r" % (what, st.tags,))
            icv = st.mem[isamod.CPU_ROOT].fields[ic_i]
            post = []
            okp = isinstance(icv, Agg)
            if okp:
                for (i, n, bits) in aux:
                    v = icv.fields[i]
                    if not isinstance(v, Int):
                        okp = False
                        break
                    post.extend(v.bits)
            if not okp:
                res.errors.append("controller state after %s is not a value the model can follow" % what)
                continue
            q = st.mem[QROOT]
            post.extend(q.bits)
            trs.append({"pc": st.pc, "post": post, "eff": st.eff, "o": o, "what": what})
        return trs
    # transitions
    outs_try = ip.run_all(k_try, [Ref(isamod.CPU_ROOT, ())], fresh_mem())
    tr_try = collect(outs_try, "try_interrupt")
    nreq_bits = bv.data_bv("n", 8)
    outs_req = ip.run_all(k_req, [Ref(isamod.CPU_ROOT, (ic_i,)), Int(nreq_bits)], fresh_mem())
    tr_req = collect(outs_req, "request_interrupt")
    # initial state: InterruptController::new
    k_new = [k for k in facts.bodies if k.endswith("InterruptController::new")]
    init_states = []
    if len(k_new) == 1:
        mem0 = {QROOT: Int((0, 0))}
        outs_new = ip.run_all(k_new[0], [], mem0)
        for o in outs_new:
            v = o.value
            if o.kind != "return" or not isinstance(v, Agg):
                res.errors.append("InterruptController::new: unexpected outcome")
                continue
            a = {}
            okk = True
            for (i, n, bits) in aux:
                fv = v.fields[i]
                val = bv.to_int(fv.bits) if isinstance(fv, Int) else None
                if val is None:
                    okk = False
                    break
                for j, b in enumerate(bits):
                    a[Mx.var[b]] = (val >> j) & 1
            q = o.state.mem[QROOT]
            qv = (bv.to_int((q.bits[0],)), bv.to_int((q.bits[1],)))
            if not okk or None in qv:
                res.errors.append("InterruptController::new does not produce a constant controller state")
                continue
            a[Mx.var[q_ne]] = qv[0]
            a[Mx.var[q_ge2]] = qv[1]
            init_states.append(tuple(a[r] for r in state_ranks))
    else:
        res.errors.append("InterruptController::new not found")
    if ip.unknown_callees:
        res.errors.append("unmodelled callees in the interrupt controller: %r" % ip.unknown_callees)

    def successors(A, tr, extra=None):
        """abstract states reachable from A through trace tr (optionally under an extra condition)"""
        asg = dict(zip(state_ranks, A))
        c = Mx.restrict(tr["pc"], asg)
        if extra is not None:
            c = Mx.AND(c, extra)
        if c == 0:
            return c, []
        post = [Mx.restrict(b, asg) if b > 1 else b for b in tr["post"]]
        out = []

        def rec(i, cond, acc):
            if cond == 0:
                return
            if i == len(post):
                out.append(tuple(acc))
                return
            b = post[i]
            rec(i + 1, Mx.AND(cond, Mx.NOT(b)), acc + [0])
            rec(i + 1, Mx.AND(cond, b), acc + [1])
        rec(0, c, [])
        return c, out
    # fixpoint
    reach = set(init_states)
    work = list(init_states)
    while work:
        A = work.pop()
        for tr in tr_try + tr_req:
            if tr["o"].kind != "return":
                continue
            c, succ = successors(A, tr)
            for B in succ:
                if B not in reach:
                    reach.add(B)
                    work.append(B)
        if len(reach) > 4096:
            res.errors.append("controller state space too large")
            break
    names = [n for (_, n, bits) in aux for _ in bits] + ["pending", "pending>=2"]

    def show(A):
        return ", ".join("%s=%d" % (n, v) for n, v in zip(names, A))

    def wit(c, A):
        w = witness(c) if c not in (0, 1) else {}
        w = dict(w or {})
        w["controller_state"] = show(A)
        return w
    res.inventory["controller_states_reachable"] = sorted(show(A) for A in reach)
    res.inventory["controller_aux_fields"] = [n for (_, n, _) in aux]
    res.floor("reachable controller states", len(reach), 3)
    i_ne = len(state_ranks) - 2
    masked_seen = False
    entered_seen = False
    starve_edges = {}
    for A in sorted(reach):
        # ---- delivery: try_interrupt
        for tr in tr_try:
            o = tr["o"]
            c, succ = successors(A, tr)
            if c == 0:
                continue
            res.evaluations += 1
            st = o.state
            if o.kind == "panic":
                res.ob(False)
                res.finding("try_interrupt|panic", "try_interrupt can panic (%s)" % o.info.get("kind"), wit(c, A))
                continue
            kinds = [e[0] for e in tr["eff"]]
            nf = [e[1] for e in tr["eff"] if e[0] == "nonfifo"]
            res.ob(not nf)
            if nf:
                res.finding("queue|methods|try_interrupt", "try_interrupt applies %r to the request queue (requests can be lost or reordered)" % nf, wit(c, A))
            touched = [k for k in kinds if k in ("pop", "enter")]
            bad = Mx.AND(c, ibit) if touched else 0
            res.ob(bad == 0)
            if bad != 0:
                res.finding("mask|%s-while-I-set" % touched[0], "a request is %s while CCR.I is set" % ("popped" if touched[0] == "pop" else "entered"), wit(bad, A))
            if not touched:
                if Mx.AND(c, ibit) != 0:
                    masked_seen = True
                cpuv = st.mem[isamod.CPU_ROOT]
                same = cpuv.fields[I.fi["ccr"]].bits == bv.ccr_bv() and cpuv.fields[I.fi["pc"]].bits == bv.data_bv("pc", 24) + (0,) * 8
                okk = same and o.kind == "return" and isinstance(o.value, Enum) and o.value.variant == models.OK
                res.ob(okk)
                if not same:
                    res.finding("mask|state-changed", "try_interrupt changes CPU state without accepting a request", wit(c, A))
                # starvation edge: I clear, something pending, nothing taken
                c0, succ0 = successors(A, tr, Mx.NOT(ibit))
                if c0 != 0 and A[i_ne] == 1:
                    for B in succ0:
                        starve_edges.setdefault(A, set()).add(B)
                continue
            pops = [e for e in tr["eff"] if e[0] == "pop"]
            enters = [e for e in tr["eff"] if e[0] == "enter"]
            if "unknown-callee" in st.tags:
                continue    # contents-dependent selection that the model does not follow (reported as undecided); the mask check above still applies
            res.ob(len(pops) == 1)
            if len(pops) != 1:
                res.finding("queue|pops-per-boundary", "%d requests are popped at one instruction boundary" % len(pops), wit(c, A))
            res.ob(len(enters) == len(pops))
            if len(enters) != len(pops):
                res.finding("delivery|count", "%d request(s) popped but %d entered (lost or duplicated)" % (len(pops), len(enters)), wit(c, A))
            for pe, en in zip(pops, enters):
                okk = en[1] is not None and tuple(en[1]) == tuple(pe[1])
                res.ob(okk)
                if not okk:
                    res.finding("delivery|vector", "the vector entered is not the number that was requested (redirected)", wit(c, A))
            if enters:
                entered_seen = True
        # ---- requests
        for tr in tr_req:
            o = tr["o"]
            c, succ = successors(A, tr)
            if c == 0:
                continue
            res.evaluations += 1
            if o.kind == "panic":
                res.ob(False)
                res.finding("request|panic", "request_interrupt can panic (%s)" % o.info.get("kind"), wit(c, A))
                continue
            nf = [e[1] for e in tr["eff"] if e[0] == "nonfifo"]
            res.ob(not nf)
            if nf:
                res.finding("queue|methods|request_interrupt", "request_interrupt applies %r to the request queue (requests can be lost or reordered)" % nf, wit(c, A))
            pushes = [e for e in tr["eff"] if e[0] == "push"]
            pops = [e for e in tr["eff"] if e[0] == "pop"]
            qs = [e[1] for e in tr["eff"] if e[0] == "query"]
            okk = len(pushes) == 1 and not pops
            res.ob(okk)
            if not okk:
                key = "queue|methods|request_interrupt" if qs else "request|count"
                res.finding(key, "request_interrupt enqueues the request %d times and removes %d request(s)%s: a request is lost or duplicated"
                            % (len(pushes), len(pops), (" depending on %r" % qs) if qs else ""), wit(c, A))
                continue
            okv = pushes[0][1] is not None and tuple(pushes[0][1]) == tuple(nreq_bits)
            res.ob(okv)
            if not okv:
                res.finding("request|vector", "the number enqueued is not the number requested", wit(c, A))
    # starvation: a cycle of boundaries (I clear, a request pending) in which nothing is ever taken
    color = {}

    def dfs(u, path):
        color[u] = 1
        for v in sorted(starve_edges.get(u, ())):
            if v[i_ne] != 1:
                continue
            if color.get(v) == 1:
                return path + [u, v]
            if color.get(v) is None:
                r = dfs(v, path + [u])
                if r:
                    return r
        color[u] = 2
        return None
    cyc = None
    for A in sorted(starve_edges):
        if color.get(A) is None:
            cyc = dfs(A, [])
            if cyc:
                break
    res.ob(cyc is None)
    if cyc:
        res.finding("delivery|starved", "a pending request is not taken although CCR.I is clear, and this repeats at every later boundary: controller states %s" % " -> ".join("(" + show(x) + ")" for x in cyc[-2:]),
                    {"controller_state": show(cyc[-1]), "I": 0})
    res.ob(masked_seen)
    res.ob(entered_seen)
    if not entered_seen:
        res.finding("delivery|never", "no reachable controller state lets try_interrupt enter an interrupt")
    res.distinct = len(reach)
    if len(res.samples) < 5:
        for tr in (tr_try + tr_req)[:5]:
            res.samples.append({"transition": tr["what"], "effects": [e[0] for e in tr["eff"]], "outcome": tr["o"].kind})
    mine = set(Interp.VISITED)
    Interp.VISITED = visited_before | mine
    return mine | {k_try, k_req, k_int}


def run(ctx, res):
    facts = ctx["facts"]
    _TV.clear()
    res.explanation = __doc__.split("\n\n", 1)[1].replace("\n", " ")
    res.rule = "fixpoint over abstract controller states (aux fields x queue emptiness); per reachable state and trace: (pop or enter) => !CCR.I, entered == popped, one pop, one push per request, FIFO operations only, no starvation cycle; who-may-call tables"
    res.trusted = ["rustc MIR", "h8facts", "interp.py/models.py", "bdd.py"]
    res.assumptions = ["VecDeque::push_back/pop_front are FIFO (library)", "Cpu::interrupt is summarised here (decided by C06)"]
    res.not_decided = ["'the program computes the same result as without interrupts' (a property of executions and of handler code)",
                       "the order in which simultaneously pending requests of different priority are served (the emulator is FIFO; the property does not fix an order)"]
    k_try = facts.find("try_interrupt")
    k_int = [k for k in facts.find("interrupt") if "impl cpu::Cpu" in k]
    k_req = facts.find("request_interrupt")
    if len(k_try) != 1 or len(k_int) != 1 or len(k_req) != 1:
        res.errors.append("anchors: try_interrupt %r interrupt %r request_interrupt %r" % (k_try, k_int, k_req))
        return
    k_try, k_int, k_req = k_try[0], k_int[0], k_req[0]
    analysed = controller_model(facts, res, k_try, k_int, k_req)
    Mx = bv.M
    # ---- (2) who-may-call
    cg = cfgmod.CallGraph(facts)
    k_run = facts.body("cpu::Cpu::run")["key"]
    k_exec = facts.body("cpu::Cpu::exec")["key"]
    callers_int = cg.callers(k_int)
    callers_try = cg.callers(k_try)
    res.inventory["callers_of_interrupt"] = callers_int
    res.inventory["callers_of_try_interrupt"] = callers_try

    def only_from(k, roots, seen=()):
        """k is one of roots, or a helper whose every caller chain leads into roots"""
        if k in roots:
            return True
        if k in seen:
            return True
        cs = cg.callers(k)
        return bool(cs) and all(only_from(c, roots, seen + (k,)) for c in cs)
    # (Cpu::interrupt is only the exception-entry sequence: an instruction such as TRAPA may share it.  What the property
    # restricts is where pending REQUESTS are taken - try_interrupt, below - and that no instruction touches the request
    # queue, which the instruction-level analysis decides.)
    okk = bool(callers_try) and all(only_from(c, {k_run}) for c in callers_try)
    res.ob(okk)
    if not okk:
        res.finding("boundary|try_interrupt-callers", "try_interrupt is reachable other than through the run loop (callers %r)" % callers_try)
    reach_exec = cg.reachable(k_exec)
    for k in (k_try,):
        res.ob(k not in reach_exec)
        if k in reach_exec:
            res.finding("boundary|inside-instruction|%s" % k.split("::")[-1], "interrupt entry is reachable from inside instruction execution: %s" % " -> ".join(cg.path(k_exec, k)))
    # order inside one iteration of the run loop: taken from the effect traces of the generalised iteration (rules/c13.analyse),
    # which follows helper functions - try_interrupt exactly once, before fetch, before exec
    from rules import c13
    I2, ip2, outs2, info2, names2, body2, g2, busfi2 = c13.analyse(facts)
    nord = 0
    rotated = []
    for o in outs2:
        st2 = o.state
        if st2.ctr.get(("visit", info2["header"]), 0) == 0:
            continue
        if any(t_ in st2.tags for t_ in ("opaque-assert", "unknown-callee")):
            res.errors.append("imprecise trace of the run loop: %r" % (st2.tags,))
            continue
        kinds = [e[0] for e in st2.eff]
        if "fetch" not in kinds and "exec" not in kinds:
            continue
        nord += 1
        nt = kinds.count("try_interrupt")
        failed2 = [t_ for t_ in st2.tags if t_.startswith("failed:")]
        okk = nt == 1 and kinds.count("fetch") <= 1 and kinds.count("exec") <= 1
        if okk and "fetch" in kinds:
            okk = kinds.index("try_interrupt") < kinds.index("fetch")
        if okk and "exec" in kinds:
            okk = kinds.index("try_interrupt") < kinds.index("exec") and ("fetch" not in kinds or kinds.index("fetch") < kinds.index("exec"))
        if not okk and kinds.count("fetch") <= 1 and kinds.count("exec") <= 1 and "exec" in kinds:
            # the rotated loop: the boundary poll sits at the END of the iteration, after the exit test - the same sequence of
            # boundaries (poll, instruction, poll, instruction ...) as long as the run that ends at the exit address polls no more
            after_exec = kinds[kinds.index("exec") + 1:]
            before_exec = kinds[:kinds.index("exec")]
            if "try_interrupt" not in before_exec:
                if o.kind == "stop":
                    okk = after_exec.count("try_interrupt") == 1 and after_exec[-1] == "try_interrupt"
                elif o.kind == "return" and not failed2:
                    okk = nt == 0          # Ok at the exit address: returned before the poll
                else:
                    okk = nt <= 1          # an error ends the run wherever it occurs
                rotated.append(o.kind)
        res.ob(okk)
        if not okk:
            res.finding("boundary|order", "an iteration of the run loop does not perform try_interrupt exactly once before fetch and exec (effects %r)" % [k_ for k_ in kinds if k_ in ("try_interrupt", "fetch", "exec")])
    res.floor("run-loop iterations with an instruction analysed for the boundary order", nord, 2)
    Mx = bv.M
    # ---- (3) queue discipline: every body that touches the controller's state is one the model above interpreted
    IC_FIELDS = set(facts.struct_fields(IC))
    touch = {}
    for key, b in facts.bodies.items():
        for bl in b["blocks"]:
            places = []
            for s_ in bl["st"]:
                if s_["k"] == "assign":
                    places.append(s_["p"])
                    r = s_["r"]
                    if "p" in r:
                        places.append(r["p"])
                    for o_ in ([r.get("o")] if r.get("o") else []) + [x for x in (r.get("a"), r.get("b")) if x] + r.get("ops", []):
                        if o_ and o_["k"] in ("copy", "move"):
                            places.append(o_["p"])
            t = bl["term"]
            if t["k"] == "call":
                for a in t["args"]:
                    if a["k"] in ("copy", "move"):
                        places.append(a["p"])
            for p in places:
                base_ty = facts.types[b["locals"][p["l"]]["ty"]]
                cur = base_ty
                for pr in p["p"]:
                    if pr["k"] == "deref":
                        cur = facts.types[cur["to"]] if cur.get("to") is not None else cur
                    elif pr["k"] == "field":
                        if cur.get("k") == "adt" and cur.get("path") == IC:
                            touch.setdefault(key, set()).add(pr["n"])
                        cur = facts.types[pr["ty"]] if pr.get("ty") is not None else {}
                    else:
                        cur = {}
    res.inventory["bodies_touching_controller_state"] = {k: sorted(v) for k, v in sorted(touch.items())}
    for key in sorted(touch):
        if key.endswith("InterruptController::new") or "as std::clone::Clone" in key:
            continue
        inside = key in analysed
        if inside:
            res.ob(True)
            continue
        meths = sorted(set(p.split("::")[-1] for i, p, t in cfgmod.Cfg(facts.bodies[key]).calls() if "VecDeque" in p))
        bad = [m for m in meths if m not in FIFO_OK]
        res.ob(False)
        if bad:
            res.finding("queue|touched-by|%s" % key, "%s applies %r to the request queue outside request_interrupt / try_interrupt (requests can be lost or reordered)" % (key, bad))
        else:
            res.errors.append("%s accesses the interrupt controller's state (%s) but is not part of the analysed request / delivery paths: not decidable by this rule" % (key, sorted(touch[key])))
    res.floor("bodies touching the controller state", len(touch), 2)
    # ---- (3b) an accepted request is really entered: Cpu::interrupt is summarised in the controller model above, so the entry
    # sequence is checked here against the manual's for every vector 1..63 (isa_extra.check_interrupt, also C06) - a vector for
    # which the function returns Ok without building the frame is a request that was taken from the queue and lost
    try:
        import isa_extra
        ri = isa_extra.check_interrupt(facts)
        for f_ in ri["findings"]:
            if "C10" in f_["props"]:
                res.finding("delivery|entry|" + f_["aspect"], "a request accepted by try_interrupt is not entered for some vector in 1..=63: " + f_["msg"], f_["witness"])
        res.obligations += ri["ob"][0]
        res.discharged += ri["ob"][1]
    except RuntimeError as e_:
        res.errors.append("interrupt entry: %s" % e_)
    # ---- (4) requesters: the number passed is a constant in 1..=63 - directly, or through parameters of helper functions
    # (followed to the helpers' callers); a computed number is not decided by this rule
    nreq = 0
    requested = set()

    def vector_values(key, operand, depth=4):
        """set of (value or None, site) an operand can take: constants, or - for a parameter of the body - what the callers pass"""
        b = facts.bodies[key]
        if operand["k"] == "const":
            v = operand["v"]
            return [(int(v["int"]) if "int" in v else None, key)]
        gg = cfgmod.Cfg(b)
        out = []
        for r in gg.roots(operand):
            if r[0] == "const":
                try:
                    out.append((int(r[1]), key))
                except (TypeError, ValueError):
                    out.append((None, key))
            elif r[0] == "place" and r[1].startswith("_") and r[1][1:].isdigit() and 1 <= int(r[1][1:]) <= b.get("argc", 0) and depth > 0:
                pi = int(r[1][1:]) - 1
                callers = [(k2, t2) for k2, b2 in facts.bodies.items() for bl2 in b2["blocks"] for t2 in [bl2["term"]] if t2["k"] == "call" and t2["callee"]["path"] == key]
                if not callers:
                    out.append((None, key))
                for k2, t2 in callers:
                    out.extend(vector_values(k2, t2["args"][pi], depth - 1))
            else:
                out.append((None, key))
        return out or [(None, key)]
    for key, b in facts.bodies.items():
        for bl in b["blocks"]:
            t = bl["term"]
            if t["k"] == "call" and t["callee"]["path"] == k_req:
                nreq += 1
                vals = vector_values(key, t["args"][1])
                requested.update(v for v, _ in vals if v is not None)
                bad = sorted(set(v for v, _ in vals if v is not None and not (1 <= v <= 63)))
                unknown = [site for v, site in vals if v is None]
                res.ob(not bad and not unknown)
                if bad:
                    res.finding("requester|%s|vector" % key.split("::")[-1], "%s requests vector number(s) %r outside 1..=63" % (key, bad))
                elif unknown:
                    # a number taken from a table / computed: for the timer, the tick analysis of rules/c17 interprets the code and
                    # observes the numbers actually passed
                    obs = timer_vectors(facts) if "timer8" in key else None
                    if obs is not None and None not in obs and obs:
                        requested.update(obs)
                        badv = sorted(v for v in obs if not (1 <= v <= 63))
                        if badv:
                            res.finding("requester|%s|vector" % key.split("::")[-1], "%s requests vector number(s) %r outside 1..=63" % (key, badv))
                    else:
                        res.errors.append("%s requests a vector number that is computed in %s: not decidable by this rule" % (key, unknown[0]))
    res.inventory["request_sites"] = nreq
    res.inventory["requested_vectors"] = sorted(requested)
    res.floor("distinct vector numbers requested by peripherals", len(requested), 3)
