"""C15 - no guest-triggered panic.

Complete enumeration and discharge of the panic obligations of every body reachable from
Cpu::run (dev-profile MIR: every overflow, shift, division and bounds check is an explicit
Assert terminator; unwrap/expect/index/borrow_mut/diverging calls are call sites):
(a) each obligation is evaluated by the abstract interpreter in its calling contexts - a
    panic trace whose path condition is satisfiable is a finding with a concrete witness:
    all instruction handlers and addressing helpers (instruction-level analysis of
    Cpu::exec), fetch, interrupt entry, try_interrupt, Bus::read/Bus::write, the port
    handlers, update_tcr, the timer update and tick loop, the cost function, the MES gate,
    the control-line dispatch and parsers, one generalised iteration of run, print_er;
(b) census: a reachable body that owns an obligation must have been interpreted by one of
    these analyses or every one of its obligations must be on the allow-list (one reason
    each) - new code with a new obligation fails closed;
(c) calling contexts of the cost function: every (kind, count) pair passed by an
    instruction is constant and count x 14 fits the u8 charge;
(d) RefCell re-entrancy: Bus::write (which borrows the module manager) is unreachable
    from update_modules / write_registers, the only places where it is already borrowed."""
import importlib
import bv
import cfg as cfgmod
import isa as isamod
import isa_extra
import isarun
import models
from interp import Agg, Enum, Int, Interp, Opaque, Ref, UNIT
from rules import c13

MAYPANIC = ("unwrap", "expect", "::index", "index_mut", "borrow_mut", "::borrow", "copy_from_slice", "split_at", "from_secs_f64", "panic", "unreachable", "assert_failed")
POINTER_CHECKS = ("NullPointerDereference", "MisalignedPointerDereference")

# (body-key suffix or '', callee substring or assert kind, argument-origin substring or '', reason)
ALLOW = [
    ("", "unwrap", "RwLock::<T>::read", "configuration flags (setting::*): the lock is poisoned only if a writer panicked; nothing writes them after start-up - not guest-controllable"),
    ("bus::Bus::write", "unwrap", "upgrade", "Weak<RefCell<ModuleManager>>::upgrade: the Cpu owns the Rc for its whole life, the Bus is a field of the Cpu"),
    ("cpu::Cpu::run", "from_secs_f64", "", "host pacing: the argument is non-negative and finite by construction - decided by the sign analysis of rules/c13 (floatsign), whose finding pacing|panic|... is harvested here"),
    ("cpu::Cpu::run", "Overflow:state_sum", "", "64-bit total of executed states: needs 2^64 states (29,000 years of emulated time)"),
]


def harvest(modname, facts, tier):
    import cli
    mod = importlib.import_module(modname)
    r = cli.Result(modname)
    mod.run({"facts": facts, "tier": tier, "seed": 0, "prop": modname[-3:].upper(), "arg": None}, r)
    return r


def print_er_run(facts, res):
    k = facts.find("print_er")
    if len(k) != 1:
        res.errors.append("anchor print_er: %r" % k)
        return
    bv.reset()
    I = isamod.Isa(facts)
    ip = I.make_interp()
    c13.time_models(ip)
    body = facts.bodies[k[0]]
    g = cfgmod.Cfg(body)
    loops = g.loops()

    def m_into_iter(ip_, st, fr, t, args):
        return args[0]

    def m_range_next(ip_, st, fr, t, args):
        r = args[0]
        rng = ip_.read_loc(st, r.root, r.path)
        start, end = rng.fields[0], rng.fields[1]
        c = bv.ult(start.bits, end.bits)

        def adv(s, r=r, start=start):
            ip_.write_loc(s, r.root, r.path + (0,), Int(bv.add(start.bits, bv.const(1, len(start.bits)))))
        return [(c, Enum(models.SOME, [start]), adv), (bv.M.NOT(c), Enum(models.NONE, []))]

    def m_host(ip_, st, fr, t, args):
        return ip_.opaque_of_type(t["dest"]["ty"], "host")
    ip.models["<I as std::iter::IntoIterator>::into_iter"] = m_into_iter
    ip.models["std::iter::range::<impl std::iter::Iterator for std::ops::Range<A>>::next"] = m_range_next
    ip.pattern_models.append((lambda p, f: "String" in p or "string" in p, m_host))
    for h in loops:
        def at_header(ip_, st, fr, n):
            if n >= 1:
                return "stop"
            for key, v in list(st.mem.items()):
                if key[0] == "f" and key[1] == fr.fid and isinstance(v, Agg) and len(v.fields) == 2 and all(isinstance(x, Int) for x in v.fields):
                    st.mem[key] = Agg([Int(bv.seq_bv("i", len(v.fields[0].bits))), v.fields[1]])
            return "continue"
        ip.block_hooks[(k[0], h)] = at_header
    outs = ip.run_all(k[0], [Ref(isamod.CPU_ROOT, ())], {isamod.CPU_ROOT: I.fresh_cpu()})
    if ip.unknown_callees:
        res.errors.append("unmodelled callees in print_er: %r" % ip.unknown_callees)
    for o in outs:
        if o.kind == "panic":
            res.ob(False)
            res.finding("print_er|panic|%s" % o.info.get("kind"), "print_er can panic (%s, line %s)" % (o.info.get("kind"), o.info.get("line")))
    res.ob(True)


def run(ctx, res):
    facts = ctx["facts"]
    tier = ctx["tier"]
    res.explanation = __doc__.split("\n\n", 1)[1].replace("\n", " ")
    res.rule = "for every Assert / panicking call site in a body reachable from run: path condition of the failing branch == FALSE in every analysed context, else finding; census + allow-list"
    res.trusted = ["rustc MIR (dev profile: overflow checks and debug assertions on, so the optimized build's obligations are a subset)", "h8facts", "interp.py/models.py", "bdd.py",
                   "the allow-list of rules/c15.py"]
    res.assumptions = ["elf::load is outside the property (malformed files are not among its inputs)", "panics inside std that depend only on host state (stdout closed, allocation failure) are not guest-triggered",
                       "socket worker threads are separate threads: a panic there does not crash the emulator thread"]
    res.not_decided = ["non-termination (e.g. a 4 GiB MES write length) - not a panic"]
    Interp.VISITED = set()
    panics = []
    # (a) instruction-level analysis
    agg = isarun.run(facts.path)
    visited = set(agg.get("visited", ()))
    for f in agg["findings"].values():
        if "ENGINE" in f["props"]:
            res.errors.append("engine: %s %s" % (f["key"], f["msg"]))
        elif "C15" in f["props"]:
            panics.append(("exec", f["key"], f["msg"], f["witness"]))
    res.obligations += agg["trace_kinds"].get("return", 0)
    res.discharged += agg["trace_kinds"].get("return", 0)
    res.inventory["exec_traces"] = agg["trace_kinds"]
    res.floor("traces of Cpu::exec", agg["traces"], 1500)
    cost_sites = dict(agg.get("cost_sites", {}))
    for name, fn in (("fetch", isa_extra.check_fetch), ("interrupt entry", isa_extra.check_interrupt)):
        r = fn(facts)
        for k_, v_ in r.get("cost_sites", {}).items():
            d_ = cost_sites.setdefault(k_, [0, 0, None, v_[3]])
            d_[0] += v_[0]
            d_[1] += v_[1]
            d_[2] = d_[2] if d_[2] is not None else v_[2]
        for f in r["findings"]:
            if "C15" in f["props"]:
                panics.append((name, f["key"], f["msg"], f["witness"]))
        res.ob(True)
    # other analyses: harvest their panic findings
    sub = {}
    for modname in ("rules.c09", "rules.c10", "rules.c13", "rules.c14", "rules.c16", "rules.c17", "rules.c18", "rules.c19"):
        r = harvest(modname, facts, tier)
        sub[modname] = r
        for e in r.errors:
            res.errors.append("%s: %s" % (modname, e))
        for f in r.findings:
            if "panic" in f["key"]:
                panics.append((modname[-3:], f["key"], f["msg"], f["witness"]))
        res.obligations += r.obligations
        res.discharged += r.obligations - len([f for f in r.findings if "panic" in f["key"]])
    # run(): panics of the generalised iteration under the counter invariants
    I, ip, outs, info, names, body, g, busfi = c13.analyse(facts)
    Mx = bv.M
    sync = bv.seq_bv("h_sync_count", 64)
    c1 = bv.seq_bv("h_count_1msec", 64)
    pre = Mx.AND(bv.ult(sync, bv.const(c13.K_SYNC, 64)), bv.ult(c1, bv.const(20000, 64)))
    line_sum = None
    for o in outs:
        if o.kind != "panic":
            continue
        if any(t_ in o.state.tags for t_ in ("opaque-assert", "unknown-callee", "unwrap-opaque")):
            res.errors.append("imprecise trace in run (panic branch): %r" % (o.state.tags,))
            continue
        care = Mx.AND(o.state.pc, pre)
        if care == 0:
            res.ob(True)
            continue
        # which local overflowed?  the 64-bit state total is allow-listed
        t = body["blocks"]
        desc = "%s %s line %s" % (o.info.get("kind"), o.info.get("op"), o.info.get("line"))
        is_sum = False
        fbody = facts.bodies.get(o.info.get("fn"), body)
        fg = cfgmod.Cfg(fbody)
        for bl in fbody["blocks"]:
            tm = bl["term"]
            if tm["k"] == "assert" and tm["ln"] == o.info.get("line") and tm["msg"]["kind"] == "Overflow":
                ops = tm["msg"]["ops"]
                if ops and ops[0]["k"] in ("copy", "move") and any(pr.get("n") == "state_sum" for pr in ops[0]["p"]["p"]):
                    is_sum = True
                # the 64-bit total, wherever the addition lives (helper functions included): an operand copied from the field state_sum
                for op_ in ops or []:
                    if op_["k"] in ("copy", "move") and fbody["locals"][op_["p"]["l"]].get("ty") is not None and (ip.int_info(fbody["locals"][op_["p"]["l"]]["ty"]) or (0,))[0] == 64:
                        if any(r_[0] == "place" and r_[1].endswith(".state_sum") for r_ in fg.roots(op_)):
                            is_sum = True
        # any 64-bit accumulator that grows by a 16-bit (or narrower) amount per iteration - whatever it is called - needs more than 2^47
        # iterations to overflow: the same argument as for the state total
        if not is_sum:
            for bl in fbody["blocks"]:
                tm = bl["term"]
                if tm["k"] == "assert" and tm["ln"] == o.info.get("line") and tm["msg"]["kind"] == "Overflow" and "Add" in str(tm["msg"].get("op") or o.info.get("op") or "Add"):
                    ops = tm["msg"]["ops"] or []
                    wide = [op_ for op_ in ops if op_["k"] in ("copy", "move") and (ip.int_info(op_["p"].get("ty", fbody["locals"][op_["p"]["l"]]["ty"])) or (0,))[0] == 64]
                    small = False
                    dfs = fg.defs()
                    for op_ in ops:
                        if op_["k"] in ("copy", "move") and not op_["p"]["p"]:
                            for blk_, kd_, payload_ in dfs.get(op_["p"]["l"], []):
                                if kd_ == "st" and payload_["r"]["k"] == "cast" and payload_["r"].get("ck") == "IntToInt":
                                    src_ = payload_["r"]["o"]
                                    if src_["k"] in ("copy", "move"):
                                        sty_ = fbody["locals"][src_["p"]["l"]]["ty"] if not src_["p"]["p"] else src_["p"].get("ty")
                                        ii_ = ip.int_info(sty_) if sty_ is not None else None
                                        if ii_ and ii_[0] <= 16:
                                            small = True
                    if len(wide) == 2 and small:
                        is_sum = True
        if is_sum:
            res.ob(True)
            res.inventory.setdefault("allowlisted_sites", []).append("run: state_sum overflow (line %s)" % o.info.get("line"))
            continue
        res.ob(False)
        from rules.c13 import witness
        panics.append(("run", "run|panic|%s|line" % o.info.get("kind"), "run can panic: %s" % desc, witness(care)))
    # invariant of count_1msec (used above): reset when >= 20000
    print_er_run(facts, res)
    visited |= Interp.VISITED
    # (b) census
    cg = cfgmod.CallGraph(facts)
    k_run = facts.body("cpu::Cpu::run")["key"]
    reach = sorted(k for k in cg.reachable(k_run) if k in facts.bodies)
    nob = 0
    nallow = 0
    unvisited = []
    for k in reach:
        b = facts.bodies[k]
        gg = None
        obs = []
        for bl in b["blocks"]:
            if bl["cleanup"]:
                continue
            t = bl["term"]
            if t["k"] == "assert" and t["msg"]["kind"] not in POINTER_CHECKS:
                obs.append(("assert", t["msg"]["kind"], t))
            elif t["k"] == "call":
                p = t["callee"]["path"] or ""
                if p not in facts.bodies and any(m in p for m in MAYPANIC):
                    obs.append(("call", p, t))
                elif facts.types[t["dest"]["ty"]]["k"] == "never":
                    obs.append(("call", p, t))
        nob += len(obs)
        if not obs:
            continue
        # allow-list
        rest = []
        for kind, what, t in obs:
            allowed = False
            if kind == "call":
                if gg is None:
                    gg = cfgmod.Cfg(b)
                origin = ""
                if t["args"]:
                    origin = " ".join(str(r[1]) for r in gg.roots(t["args"][0]) if r[0] == "call")
                for bsuf, csub, osub, why in ALLOW:
                    if k.endswith(bsuf) and csub in what and (not osub or osub in origin):
                        allowed = True
            if allowed:
                nallow += 1
            else:
                rest.append((kind, what, t["ln"]))
        if rest and k not in visited:
            unvisited.append((k, rest))
    res.inventory["bodies_reachable_from_run"] = len(reach)
    res.inventory["panic_obligation_sites"] = nob
    res.inventory["allowlisted_call_sites"] = nallow
    res.inventory["bodies_interpreted"] = len([k for k in reach if k in visited])
    for k, rest in unvisited:
        # coverage gap, not a proven panic: fail closed as "not decided" (checker error), never as a violation
        res.ob(False)
        res.errors.append("census: %s owns %d panic obligation(s) (%s) that no analysis covers and that are not allow-listed - not decided" % (k, len(rest), ", ".join("%s@%s" % (w.split("::")[-1], ln) for _, w, ln in rest[:4])))
    res.ob(not unvisited)
    res.floor("panic obligation sites", nob, 380 if facts.overflow_checks else 60)
    res.floor("bodies reachable from run", len(reach), 300)
    # (c) cost-function contexts
    k_cs = facts.body("cpu::Cpu::calc_state")["key"]
    k_csa = facts.body("cpu::Cpu::calc_state_with_addr")["key"]
    st_t = facts.types[facts.type_by_path["cpu::StateType"]]
    ncost = 0
    nsem = 0
    for k in reach:
        for bl in facts.bodies[k]["blocks"]:
            t = bl["term"]
            if t["k"] == "call" and t["callee"]["path"] in (k_cs, k_csa) and k not in (k_cs,):
                ncost += 1
                gg = cfgmod.Cfg(facts.bodies[k])
                kroots = gg.roots(t["args"][1])
                croots = gg.roots(t["args"][2])
                cnt = [int(r[1]) for r in croots if r[0] == "const" and str(r[1]).isdigit()]
                kind = [r for r in kroots]
                isn = any(r[0] == "expr" for r in kroots)   # aggregate StateType::X
                kname = None
                defs = gg.defs()
                a1 = t["args"][1]
                if a1["k"] in ("copy", "move") and not a1["p"]["p"]:
                    for blk, kd, payload in defs.get(a1["p"]["l"], []):
                        if kd == "st" and payload["r"]["k"] == "agg":
                            kname = payload["r"].get("vname")
                elif a1["k"] == "const" and "vname" in a1["v"]:
                    kname = a1["v"]["vname"]
                all_const = bool(croots) and all(r[0] == "const" and str(r[1]).isdigit() for r in croots)
                okk = all_const and len(cnt) >= 1 and kname is not None and (kname == "N" or max(cnt) * isamod.MAX_COST_MULT <= 255)
                fn_ = k.split("::")[-1]
                if okk:
                    res.ob(True)
                    continue
                # not a literal at the call site (helper parameter, table, selected by a decode bit): decided semantically - in every
                # calling context met by the instruction-level / interrupt-entry analyses the count value must keep the u8 charge in range
                sem = cost_sites.get("%s|%s|%s" % (k, t["ln"], (t["callee"]["path"] or "").split("::")[-1]))
                nsem += 1
                if all_const and len(cnt) >= 1 and kname is not None:
                    res.ob(False)
                    res.finding("cost-context|%s|%s" % (fn_, kname), "%s passes the literal count %d (kind %s) to the cost function: count x %d does not fit the 8-bit charge (overflow panic / wrapped charge)"
                                % (k, max(cnt), kname, isamod.MAX_COST_MULT))
                elif sem is None or sem[0] == 0:
                    res.ob(False)
                    res.errors.append("cost context of %s (kind %s): the count is not a literal and no analysed calling context reaches the call - not decided" % (fn_, kname))
                elif sem[1]:
                    res.ob(False)
                    res.finding("cost-context|%s|%s" % (fn_, sem[3]), "%s can pass count %s (kind %s) to the cost function: count x %d does not fit the 8-bit charge (overflow panic / wrapped charge); %d of %d analysed calling contexts"
                                % (k, sem[2], sem[3], isamod.MAX_COST_MULT, sem[1], sem[0]))
                else:
                    res.ob(True)
    res.inventory["cost_call_sites_decided_in_context"] = nsem
    res.inventory["cost_call_sites"] = ncost
    res.floor("cost-function call sites", ncost, 240)
    # (d) re-entrancy: while a RefCell<T> is borrowed, nothing that runs under the borrow (the T methods called by the
    # borrowing body) may reach a body that borrows a RefCell<T> again - wherever the borrow sites are
    import re as _re
    sites = {}      # inner type -> set of bodies that borrow it
    for k in reach:
        for bl in facts.bodies[k]["blocks"]:
            t = bl["term"]
            if t["k"] == "call" and _re.search(r"RefCell::<T>::(try_)?borrow(_mut)?$", t["callee"]["path"] or ""):
                m_ = _re.search(r"RefCell::<(.+)>::(?:try_)?borrow", t["callee"].get("full") or "")
                sites.setdefault(m_.group(1) if m_ else "?", set()).add(k)
    res.inventory["refcell_borrow_sites"] = {k_: sorted(v_) for k_, v_ in sites.items()}
    for inner, bodies_ in sites.items():
        for k in sorted(bodies_):
            under = sorted(set(t["callee"]["path"] for bl in facts.bodies[k]["blocks"] for t in [bl["term"]]
                               if t["k"] == "call" and (t["callee"]["path"] or "") in facts.bodies and (t["callee"]["path"] or "").startswith(inner + "::")))
            for callee in under:
                hit = [b_ for b_ in cg.reachable(callee) if b_ in bodies_]
                res.ob(not hit)
                if hit:
                    res.finding("reentrancy|%s" % callee.split("::")[-1], "%s runs while RefCell<%s> is borrowed by %s and reaches %s, which borrows it again (BorrowMutError panic): %s"
                                % (callee, inner, k, hit[0], " -> ".join(cg.path(callee, hit[0]) or [])))
    # findings
    for src, key, msg, wit in panics:
        res.ob(False)
        res.finding("%s|%s" % (src, key), msg, wit)
    res.evaluations = agg["traces"] + sum(r.evaluations for r in sub.values())
    res.distinct = len(visited & set(reach))
    res.samples = [{"analysis": "exec", "traces": agg["trace_kinds"]}] + [{"analysis": m, "obligations": r.obligations, "panic_findings": len([f for f in r.findings if "panic" in f["key"]])} for m, r in sub.items()][:7]
