"""C12 - process environment set up by the loader.

elf::load is interpreted with every loop generalised (see C11).  Decided for all header
values, section contents and argument strings:
(1) ER2 = H'416900 (run starts there: C13 prologue);      (2) the image end is derived
    only from program headers that were tested to be PT_LOAD (non-load headers may be
    anywhere), as the maximum / last of p_paddr + p_memsz;  (3) .stack: ER7 =
    align4up(H'416900 + image_end + declared size) - 8 (hence 4-byte aligned, 8 below the
    aligned end of the stack region that begins where the image ends); the argument
    block starts at align4up(aligned end + 88) (TCB in between, no overlap);
    ER0 = number of entries of the argument vector AFTER "prog.elf" was inserted at
    index 0, ER1 = address of the first pointer; the pointer table has argc+1 slots;
    each iteration stores the big-endian address of the string about to be written into
    the next slot, each byte of the word at consecutive addresses, then a NUL;
(4) .symtab: names are resolved through the string table selected by sh_link; the exit
    address is st_value + H'416900 exactly for the symbol named ___exit."""
import bv
import isacheck
import loader as loadermod
import strmodel
from interp import Agg, Enum, Int, Opaque, Ref, SymArr, SymEnum
from rules.c11 import BASE, DRAM_START, OFF, differs, fields_of, get, witness

PH = "elf::program_header::ProgramHeader32"
SH = "elf::section::SectionHeader32"
SYM = "elf::symtab::SymbolTable32"
TCB = 88


def align4(v):
    return (0, 0) + tuple(bv.add(v, bv.const(3, len(v)))[2:])


def run(ctx, res):
    facts = ctx["facts"]
    res.explanation = __doc__.split("\n\n", 1)[1].replace("\n", " ")
    res.rule = "abstract interpretation of elf::load (loops generalised at their headers); register values and stores compared with the reference layout formulas as BDD bit-vectors"
    res.trusted = ["rustc MIR", "h8facts", "interp.py/models.py/loader.py/symgen.py", "bdd.py", "Vec/iterator/split_whitespace semantics (library)", "layout formulas of rules/c12.py (from the property statement)"]
    res.assumptions = ["PT_LOAD entries in ascending order (property precondition), so 'last' and 'highest' load extent coincide", "no 32/64-bit overflow in the layout arithmetic (sizes <= 64 KiB, image inside DRAM)",
                       "the DRAM store is zero-initialised, so the slot after the last argv pointer reads as a null pointer"]
    res.not_decided = ["that the regions lie inside DRAM for every size (value-level bound on the file)", "argc = 1 + number of whitespace-separated words: the count is split_whitespace's (library); decided: ER0 is the vector length after the insertion",
                       "byte-exactness of each copied word as a whole-run fact: it follows from the per-byte step by induction (stated)"]
    L = loadermod.Loader(facts)
    outs = L.run()
    Mx = bv.M
    seen = {"er2": 0, "stack": 0, "argptr": 0, "argbyte": 0, "argnul": 0, "exit": 0, "image-end": 0}
    image_end_var = None
    image_loops = set()
    EH = "elf::header::ElfHeader32"
    tables_ok = set()
    res.ob(L.ehdr is not None)
    if L.ehdr is None:
        res.errors.append("the ELF header value was not identified (parse_elf_header32 not called?)")
    # pre-pass: the image-extent accumulator(s), by role - a loop-carried value of a program-header loop that an iteration can change
    acc_names = set()
    for o in outs:
        if o.kind == "panic":
            continue
        effs0 = list(o.state.eff)
        care0 = Mx.AND(o.state.pc, strmodel.exclusivity())
        if care0 == 0:
            continue
        for idx, e in enumerate(effs0):
            if e[0] == "iter-next" and isinstance(e[3], Agg) and len(e[3].fields) == len(fields_of(facts, PH)) and isinstance(e[3].fields[0], SymEnum):
                rest = effs0[idx + 1:]
                lb = [x for x in rest if x[0] == "loop-back"]
                heads = [x for x in effs0[:idx] if x[0] == "loop-head"]
                if not lb or not heads:
                    continue
                before, after = heads[-1][2], lb[0][2]
                for nm in after:
                    if nm in before and len(after[nm]) >= 32 and Mx.AND(care0, Mx.NOT(bv.eq(after[nm], before[nm]))) != 0:
                        acc_names.add((heads[-1][1], nm))
    res.inventory["image_extent_accumulators"] = sorted(str(x) for x in acc_names)
    for o in outs:
        st = o.state
        if o.kind == "panic":
            continue
        effs = list(st.eff)
        kinds = [e[0] for e in effs]
        er = st.mem[L.cpu_root].fields[L.I.fi["er"]]
        care = Mx.AND(st.pc, strmodel.exclusivity())
        if care == 0:
            continue

        def er_write(k):
            w = [x for x in er.writes if bv.to_int(x[0]) == k]
            return w[-1][1] if w else None
        # (1) ER2 - written before any loop, visible on every trace that got past the prologue
        if "loop-enter" in kinds:
            e2 = None
            for x in effs:
                pass
            w2 = er_write(2)
            # ER2 is set before the first loop: the havoc at later headers does not touch the register file
            if w2 is not None:
                seen["er2"] = 1
                okk = bv.to_int(w2) == BASE
                res.ob(okk)
                if not okk:
                    res.finding("er2|load-base", "ER2 is not the load base H'416900", witness(care))
        # ---- (2) image end: iterations over program headers that assign the extent
        for idx, e in enumerate(effs):
            if e[0] == "loop-head":
                snap_head = e[2]
            if e[0] == "iter-next" and isinstance(e[3], Agg) and len(e[3].fields) == len(fields_of(facts, PH)) and isinstance(e[3].fields[0], SymEnum):
                ph = e[3]
                rest = effs[idx + 1:]
                lb = [x for x in rest if x[0] == "loop-back"]
                heads = [x for x in effs[:idx] if x[0] == "loop-head"]
                if not lb or not heads:
                    continue
                before = heads[-1][2]
                after = lb[0][2]
                for nm in after:
                    if nm in before and len(after[nm]) >= 32 and Mx.AND(care, Mx.NOT(bv.eq(after[nm], before[nm]))) != 0:
                        # a loop-carried value that can change in a program-header iteration: an image-extent accumulator
                        is_load = bv.eq(get(facts, PH, ph, "ty").bits, bv.const(1, 64))
                        changed = Mx.NOT(bv.eq(after[nm], before[nm]))
                        bad = Mx.AND(Mx.AND(care, changed), Mx.NOT(is_load))
                        res.ob(bad == 0)
                        seen["image-end"] = 1
                        if bad != 0:
                            res.finding("image-end|non-load-header", "the image end is updated from a program header that is not PT_LOAD", witness(bad))
                        ext = bv.add(get(facts, PH, ph, "size_in_mem").bits, get(facts, PH, ph, "physical_addr").bits)
                        w = len(after[nm])
                        extw = bv.zext(ext, w) if w >= 32 else ext[:w]
                        mx = bv.ite(bv.ult(before[nm], extw), extw, before[nm])
                        okv = Mx.AND(Mx.AND(care, is_load), Mx.AND(Mx.NOT(bv.eq(after[nm], extw)), Mx.NOT(bv.eq(after[nm], mx))))
                        res.ob(okv == 0)
                        if okv != 0:
                            res.finding("image-end|value", "for a PT_LOAD header the image end does not become p_paddr + p_memsz (or the maximum so far)", witness(okv))
                        image_end_var = nm
                        image_loops.add(heads[-1][1])
                        if L.ehdr is not None and ("pht", repr(e[1])) not in tables_ok:
                            tables_ok.add(("pht", repr(e[1])))
                            loadermod.check_table(res, e[1], "parse_program_header32", bv.zext(get(facts, EH, L.ehdr, "phnum").bits, 64), bv.zext(get(facts, EH, L.ehdr, "phoff").bits, 64),
                                                  care, "image-end", "image extent", differs, witness)
        # image end taken by indexing the table (no type test)?
        vi = [e for e in effs if e[0] == "vec-index" and isinstance(e[3], Agg) and len(e[3].fields) == len(fields_of(facts, PH)) and isinstance(e[3].fields[0], SymEnum)]
        sec = [e for e in effs if e[0] == "iter-next" and isinstance(e[3], Agg) and len(e[3].fields) == 2 and isinstance(e[3].fields[0], Opaque) and e[3].fields[0].tag == "str"
               and (isinstance(e[3].fields[1], Ref) or (isinstance(e[3].fields[1], Agg) and len(e[3].fields[1].fields) == len(fields_of(facts, SH))))]
        if not sec:
            continue
        s_val = sec[-1][3]
        name_t = s_val.fields[0].data
        hdr = s_val.fields[1]
        if isinstance(hdr, Ref):
            hdr = L.ip.read_loc(st, hdr.root, hdr.path)
        is_stack = strmodel.eq_var(name_t, ".stack")
        is_symtab = strmodel.eq_var(name_t, ".symtab")
        if L.ehdr is not None and ("sht", repr(sec[-1][1])) not in tables_ok:
            tables_ok.add(("sht", repr(sec[-1][1])))
            loadermod.check_table(res, sec[-1][1], "parse_section_header32", bv.zext(get(facts, EH, L.ehdr, "shnum").bits, 64), bv.zext(get(facts, EH, L.ehdr, "shoff").bits, 64),
                                  care, "sections", "section loop (.stack / .symtab)", differs, witness)
        after_sec = effs[effs.index(sec[-1]) + 1:]
        w7 = er_write(7)
        if w7 is not None and isinstance(hdr, Agg) and Mx.AND(care, is_stack) != 0 and "insert" in [x[0] for x in after_sec]:
            # ---- (3) .stack
            seen["stack"] = 1
            bad = Mx.AND(care, Mx.NOT(is_stack))
            res.ob(bad == 0)
            if bad != 0:
                res.finding("stack|other-section", "the stack/argument set-up runs for a section not named .stack", witness(bad))
            if vi:
                phx = vi[-1][3]
                tyb = get(facts, PH, phx, "ty").bits
                bad = Mx.AND(care, Mx.NOT(bv.eq(tyb, bv.const(1, 64))))
                res.ob(bad == 0)
                seen["image-end"] = 1
                if bad != 0:
                    res.finding("image-end|untested-header", "the image end is taken from a program header picked by position without testing that it is PT_LOAD "
                                "(a trailing non-load header puts the stack inside the image)", witness(bad))
                image_end = bv.zext(bv.add(get(facts, PH, phx, "size_in_mem").bits, get(facts, PH, phx, "physical_addr").bits), 64)
            else:
                # the extent accumulated by the program-header loop: some loop-carried local of that loop
                # (generalised at its header) must make the ER7 formula hold
                image_end = None
                size_ = bv.zext(get(facts, SH, hdr, "addr").bits, 64)
                # the accumulator identified by role (pre-pass), read at the head of its loop on this trace
                named = [(x[1], nm, bits) for x in effs if x[0] == "loop-head" for nm, bits in x[2].items() if (x[1], nm) in acc_names and len(bits) >= 32]
                if len(set((h_, nm_) for h_, nm_, _ in named)) == 1:
                    image_end = bv.zext(named[-1][2], 64)
                    image_end_var = named[-1][1]
                for x in effs:
                    if image_end is not None:
                        break
                    if x[0] != "loop-head":
                        continue
                    for nm, bits in x[2].items():
                        if len(bits) < 32:
                            continue
                        cand = bv.zext(bits, 64)
                        e7 = bv.sub(align4(bv.add(bv.add(bv.const(BASE, 64), cand), size_))[:32], bv.const(8, 32))
                        if differs(w7, e7, care) == 0:
                            image_end = cand
                            image_end_var = nm
            if image_end is None:
                res.ob(False)
                # not a proven deviation: the analysis cannot trace where the image end comes from (e.g. an iterator fold)
                if not any("image end" in e_ for e_ in res.errors):
                    res.errors.append("the stack placement uses an image end the analysis cannot trace to a loop over the program headers: not decidable")
                continue
            size = bv.zext(get(facts, SH, hdr, "addr").bits, 64)
            end = bv.add(bv.add(bv.const(BASE, 64), image_end), size)
            aligned = align4(end)
            exp7 = bv.sub(aligned[:32], bv.const(8, 32))
            d = differs(w7, exp7, care)
            res.ob(d == 0)
            if d != 0:
                res.finding("stack|er7", "ER7 is not align4up(H'416900 + image end + declared stack size) - 8", witness(d))
            argblk = align4(bv.add(aligned, bv.const(TCB, 64)))
            w1 = er_write(1)
            d = differs(w1, argblk[:32], care) if w1 is not None else care
            res.ob(d == 0)
            if d != 0:
                res.finding("stack|er1", "ER1 is not the start of the argument block align4up(stack end + 88)", witness(d))
            ins = [x for x in after_sec if x[0] == "insert"]
            okk = len(ins) == 1 and bv.to_int(ins[0][2]) == 0 and ins[0][3] == "prog.elf"
            res.ob(okk)
            if not okk:
                res.finding("stack|argv0", "\"prog.elf\" is not inserted once at index 0 of the argument vector", witness(care))
            w0 = er_write(0)
            argc = None
            if ins:
                argc = bv.seq_bv("len(%s)" % (("inserted", ins[0][1], "prog.elf"),), 64)
            d = differs(w0, argc[:32], care) if (w0 is not None and argc is not None) else care
            res.ob(d == 0)
            if d != 0:
                res.finding("stack|er0", "ER0 is not the length of the argument vector after the insertion of argv[0]", witness(d))
            # ---- argument loops (generalised); the accumulators are identified by what they address, not by name
            dram = L.store_of(st, "dram")
            nb = max(1, (dram.n - 1).bit_length())
            kinds_after = [x[0] for x in after_sec]
            ins_i = kinds_after.index("insert") if "insert" in kinds_after else 0
            tail = after_sec[ins_i:]
            outer = None
            for i, x in enumerate(tail):
                if x[0] == "loop-head":
                    seg = tail[i + 1:]
                    cpx = [y for y in seg if y[0] == "copy" and y[1] is not None and y[1][0] == "dram" and y[2][0] == "bytes" and len(y[2][1]) == 4]
                    nxt_head = [j for j, y in enumerate(seg) if y[0] == "loop-head"]
                    if cpx and (not nxt_head or seg.index(cpx[0]) < nxt_head[0]):
                        outer = (i, x, seg, cpx[0])
                        break
            if outer is None:
                continue
            oi, ohead, oseg, cp = outer
            hsnap = ohead[2]
            P = A = None
            for nm, bits in hsnap.items():
                if len(bits) == 64 and differs(cp[1][1], bv.sub(bits, bv.const(DRAM_START, 64)), care) == 0:
                    P = nm
                if len(bits) == 64 and all(differs(cp[2][1][j], bits[8 * (3 - j):8 * (4 - j)], care) == 0 for j in range(4)):
                    A = nm
            seen["argptr"] = 1
            res.ob(P is not None)
            if P is None:
                res.finding("argv|slot-address", "the argv pointer is not stored in a slot addressed by a running table pointer", witness(care))
            else:
                d = differs(cp[1][2], bv.add(bv.sub(hsnap[P], bv.const(DRAM_START, 64)), bv.const(4, 64)), care)
                res.ob(d == 0)
                if d != 0:
                    res.finding("argv|slot-size", "an argv slot is not 4 bytes", witness(d))
            res.ob(A is not None)
            if A is None:
                res.finding("argv|slot-value", "the argv slot does not hold the big-endian address at which the word is then written", witness(care))
            # initial values at the entry of the loop
            enter = [x for x in tail[:oi] if x[0] == "loop-enter" and x[1] == ohead[1]]
            if enter and argc is not None and P and A:
                snap = enter[-1][2]
                exp_a = bv.add(argblk, bv.shl_const(bv.add(argc, bv.const(1, 64)), 2))
                d1 = differs(snap.get(A), exp_a, care)
                d2 = differs(snap.get(P), argblk, care)
                res.ob(d1 == 0 and d2 == 0)
                if d1 != 0:
                    res.finding("stack|string-area", "the strings do not start right after argc+1 pointer slots", witness(d1))
                if d2 != 0:
                    res.finding("stack|pointer-table", "the pointer table does not start at the argument block", witness(d2))
            lbo = [x for x in oseg if x[0] == "loop-back" and x[1] == ohead[1]]
            if lbo and P:
                d = differs(lbo[0][2].get(P), bv.add(hsnap[P], bv.const(4, 64)), care)
                res.ob(d == 0)
                if d != 0:
                    res.finding("argv|slot-step", "the table pointer does not advance by 4 per argument", witness(d))
            # inner loop
            ih = [(j, y) for j, y in enumerate(oseg) if y[0] == "loop-head"]
            if not ih:
                continue
            ij, ihead = ih[0]
            iseg = oseg[ij + 1:]
            isnap = ihead[2]
            nxt = [y for y in iseg if y[0] == "iter-next"]
            lbi = [y for y in iseg if y[0] == "loop-back" and y[1] == ihead[1]]
            ws = list(dram.writes)
            if nxt and lbi and ws:
                seen["argbyte"] = 1
                byte = nxt[0][3]
                Ai = None
                for nm, bits in isnap.items():
                    if len(bits) == 64 and differs(tuple(ws[-1][0]), tuple(bv.sub(bits, bv.const(DRAM_START, 64))[:nb]), care) == 0:
                        Ai = nm
                okk = Ai is not None and isinstance(byte, Int) and differs(ws[-1][1], byte.bits, care) == 0
                res.ob(okk)
                if not okk:
                    res.finding("argv|byte", "a byte of the argument word is not stored unchanged at the current string address", witness(care))
                elif Ai:
                    d = differs(lbi[0][2].get(Ai), bv.add(isnap[Ai], bv.const(1, 64)), care)
                    res.ob(d == 0)
                    if d != 0:
                        res.finding("argv|byte-step", "the string address does not advance by one per byte", witness(d))
            done = [y for y in iseg if y[0] == "iter-done"]
            if done and not nxt and lbo and not ws:
                res.ob(False)
                res.finding("argv|terminator", "the word is not followed by a NUL byte at the next string address", witness(care))
            if done and not nxt and lbo and ws:
                seen["argnul"] = 1
                Ai = None
                for nm, bits in isnap.items():
                    if len(bits) == 64 and differs(tuple(ws[-1][0]), tuple(bv.sub(bits, bv.const(DRAM_START, 64))[:nb]), care) == 0:
                        Ai = nm
                okk = Ai is not None and bv.to_int(ws[-1][1]) == 0
                res.ob(okk)
                if not okk:
                    res.finding("argv|terminator", "the word is not followed by a NUL byte at the next string address", witness(care))
                elif A:
                    d = differs(lbo[0][2].get(A), bv.add(isnap[Ai], bv.const(1, 64)), care)
                    res.ob(d == 0)
                    if d != 0:
                        res.finding("argv|terminator-step", "the string address does not advance past the NUL", witness(d))
            res.evaluations += 1
        # ---- (4) .symtab / ___exit
        syms = [e for e in effs if e[0] == "iter-next" and isinstance(e[3], Agg) and len(e[3].fields) == 2 and isinstance(e[3].fields[1], Agg) and len(e[3].fields[1].fields) == len(fields_of(facts, SYM))]
        # the symbol loop may also run over the raw symbol records and compare the name bytes in the string table in place
        raw_syms = [e for e in effs if e[0] == "iter-next" and isinstance(e[3], Agg) and len(e[3].fields) == len(fields_of(facts, SYM)) and len(fields_of(facts, SYM)) != 2
                    and all(isinstance(x, Int) for x in e[3].fields)]
        _raw_is_exit = None
        if not syms and raw_syms and isinstance(hdr, Agg):
            symt = raw_syms[-1][3]
            tests = [e for e in effs[effs.index(raw_syms[-1]):] if e[0] == "bytes-test"]
            if len(tests) == 1:
                _, kind_, sd_, needle_, var_ = tests[0]
                # (a) WHAT is compared: the bytes of the string table selected by sh_link, starting at st_name
                vix_ = [e for e in effs if e[0] == "vec-index" and isinstance(e[3], Agg) and len(e[3].fields) == len(fields_of(facts, SH))]
                link_ = bv.zext(get(facts, SH, hdr, "link").bits, 64)
                okw = False
                for e in vix_:
                    if differs(e[2], link_, care) == 0 and isinstance(sd_, tuple) and sd_[1] is not None:
                        want = bv.add(bv.zext(get(facts, SH, e[3], "offset").bits, 64), bv.zext(get(facts, SYM, symt, "name_idx").bits, 64))
                        if differs(bv.zext(tuple(sd_[1]), 64), want, care) == 0:
                            okw = True
                res.ob(okw)
                if not okw:
                    res.finding("exit|string-table", "the bytes compared with ___exit are not those at st_name in the string table selected by sh_link", witness(care))
                # (b) HOW: the name must be ___exit exactly, i.e. the comparison includes the terminating NUL
                exact = (kind_ == "prefix" and needle_ == b"___exit\0")
                res.ob(exact)
                if not exact:
                    if needle_ == b"___exit" and kind_ == "prefix":
                        res.finding("exit|name-prefix", "the symbol name is matched as a PREFIX (starts_with without the terminating NUL): ___exit_hook, ___exitcode ... also set the exit address", witness(care))
                    else:
                        res.finding("exit|name-match", "the symbol name is compared with %r (%s), not with ___exit and its terminator" % (needle_, kind_), witness(care))
                syms = [(raw_syms[-1][0], raw_syms[-1][1], raw_syms[-1][2], Agg([strmodel.S(("symname", st.count("sn"))), symt]))]
                effs[effs.index(raw_syms[-1])] = syms[-1]
                _raw_is_exit = var_
            elif tests:
                res.errors.append("symbol loop: the name of a symbol is tested %d times: not decidable" % len(tests))
        if syms and isinstance(hdr, Agg):
            sv = syms[-1][3]
            sname = sv.fields[0].data
            symt = sv.fields[1]
            is_exit = strmodel.eq_var(sname, "___exit") if _raw_is_exit is None else _raw_is_exit
            cpuv = st.mem[L.cpu_root]
            ex = cpuv.fields[L.I.fi["exit_addr"]]
            exit0 = bv.seq_bv("exit0", 32)
            if isinstance(ex, Int) and "loop-back" in [x[0] for x in effs[effs.index(syms[-1]):]]:
                seen["exit"] = 1
                # every symbol of the table is visited: ___exit may sit at any index
                if ("sym", repr(syms[-1][1])) not in tables_ok:
                    tables_ok.add(("sym", repr(syms[-1][1])))
                    size = get(facts, SH, hdr, "size").bits
                    ents = get(facts, SH, hdr, "entry_size").bits
                    nexp = bv.zext(bv.udiv(size, ents), 64)
                    care_n = Mx.AND(care, Mx.NOT(bv.is_zero(ents)))
                    loadermod.check_table(res, syms[-1][1], "parse_symbol_table_header32", nexp, bv.zext(get(facts, SH, hdr, "offset").bits, 64),
                                          care_n, "exit", "symbol loop (___exit)", differs, witness)
                care_s = Mx.AND(care, strmodel.exclusivity())
                exp = bv.ite(is_exit, bv.add(get(facts, SYM, symt, "value").bits, bv.const(BASE, 32)), None) if False else None
                val = bv.add(get(facts, SYM, symt, "value").bits, bv.const(BASE, 32))
                # the exit address was generalised at the loop header: compare with 'unchanged' through the header snapshot
                bad1 = Mx.AND(Mx.AND(care_s, is_exit), Mx.NOT(bv.eq(ex.bits, val)))
                res.ob(bad1 == 0)
                if bad1 != 0:
                    res.finding("exit|value", "for the symbol named ___exit the exit address is not st_value + H'416900", witness(bad1))
                bad2 = Mx.AND(Mx.AND(care_s, Mx.NOT(is_exit)), Mx.NOT(bv.eq(ex.bits, exit0)))
                res.ob(bad2 == 0)
                if bad2 != 0:
                    res.finding("exit|other-symbol", "a symbol not named ___exit changes the exit address", witness(bad2))
                bad3 = Mx.AND(care, Mx.NOT(is_symtab))
                res.ob(bad3 == 0)
                if bad3 != 0:
                    res.finding("exit|other-section", "symbols are read from a section not named .symtab", witness(bad3))
                # string table selected by sh_link
                vix = [e for e in effs if e[0] == "vec-index" and isinstance(e[3], Agg) and len(e[3].fields) == len(fields_of(facts, SH))]
                link = bv.zext(get(facts, SH, hdr, "link").bits, 64)
                okk = any(differs(e[2], link, care) == 0 for e in vix)
                res.ob(okk)
                if not okk and _raw_is_exit is None:
                    res.finding("exit|string-table", "symbol names are not resolved through the string table selected by sh_link", witness(care))
    # elements dropped by an iterator filter must not be ones the property needs
    for pc_, elem, h_ in loadermod.filtered_out(outs):
        care_ = Mx.AND(pc_, strmodel.exclusivity())
        if isinstance(elem, Agg) and len(elem.fields) == len(fields_of(facts, PH)) and isinstance(elem.fields[0], SymEnum):
            if h_ in image_loops:
                bad = Mx.AND(care_, bv.eq(get(facts, PH, elem, "ty").bits, bv.const(1, 64)))
                res.ob(bad == 0)
                if bad != 0:
                    res.finding("image-end|load-header-skipped", "a PT_LOAD program header is filtered out before the image extent is computed", witness(bad))
        elif isinstance(elem, Agg) and len(elem.fields) == 2 and isinstance(elem.fields[0], Opaque) and elem.fields[0].tag == "str":
            second = elem.fields[1]
            nm = elem.fields[0].data
            if isinstance(second, Agg) and len(second.fields) == len(fields_of(facts, SYM)):
                bad = Mx.AND(care_, strmodel.eq_var(nm, "___exit"))
                res.ob(bad == 0)
                if bad != 0:
                    res.finding("exit|symbol-skipped", "a symbol named ___exit can be filtered out before the exit address is set", witness(bad))
            else:
                bad = Mx.AND(care_, Mx.OR(strmodel.eq_var(nm, ".stack"), strmodel.eq_var(nm, ".symtab")))
                res.ob(bad == 0)
                if bad != 0:
                    res.finding("sections|skipped", "a section named .stack or .symtab can be filtered out before it is processed", witness(bad))
    # a NAME of the property compared as a prefix (starts_with without the terminating NUL): other names that merely begin with it match too
    for o_ in outs:
        for e_ in o_.state.eff:
            if e_[0] == "bytes-test" and e_[1] == "prefix" and e_[3] in (b'.stack', b'.symtab', b'___exit'):
                res.ob(False)
                res.finding("names|prefix-match|%s" % e_[3].decode(), "the name %r is matched as a PREFIX (starts_with without its terminating NUL): a section / symbol whose name merely begins "
                            "with it (.stack_sizes, .symtab_shndx, ___exit_hook ...) is treated as the one the property means" % e_[3].decode(), witness(o_.state.pc))
    for k, v in seen.items():
        res.ob(bool(v))
        if not v:
            res.errors.append("no trace of kind %s analysed (vacuous)" % k)
    if L.ip.opaque_stores:
        res.errors.append("unanalysable stores in load: %r" % L.ip.opaque_stores[:3])
    res.distinct = sum(1 for v in seen.values() if v)
    res.inventory["load_traces"] = len(outs)
    res.samples.append({"loader_traces": len(outs), "kinds_seen": [k for k, v in seen.items() if v]})
    res.floor("loader traces", len(outs), 100)
