"""C19 - bus-cycle cost function: the complete decision table of
Cpu::calc_state_with_addr, decided exhaustively by abstract interpretation: the body
(with get_area_index, check_dram_area, get_wait_state inlined) is analysed with a
symbolic address, symbolic cycle count and symbolic bus-controller registers, and the
returned value is compared, as a BDD bit-vector, with the reference cost function."""
import bv
import isa as isamod
import models
from interp import Enum, Int, Ref, Opaque, UNIT
import isacheck

KINDS = ["I", "J", "K", "L", "M", "N"]
WORD_KINDS = {"I", "J", "K", "M"}


def reference(kind, state, addr, regs, consts):
    """returns (ok_condition, value bits) of the reference cost function"""
    Mx = bv.M
    if kind == "N":
        return 1, state
    ram = Mx.AND(bv.ule(bv.const(consts["MEMORY_START_ADDR"], 32), addr), bv.ule(addr, bv.const(consts["MEMORY_END_ADDR"], 32)))
    inarea = bv.ule(addr, bv.const(0xFFFFFF, 32))
    area = addr[21:24]
    val = bv.const(0, 8)
    r = regs["DRCRA"][5:8]
    for i in range(8):
        sel = bv.eq(area, bv.const(i, 3))
        bus8 = regs["ABWCR"][i]
        st3 = regs["ASTCR"][i]
        if i < 4:
            w = regs["WCRL"][2 * i:2 * i + 2]
        else:
            w = regs["WCRH"][2 * (i - 4):2 * (i - 4) + 2]
        thr = {2: 1, 3: 2, 4: 4, 5: 5}.get(i)
        dram = bv.ule(bv.const(thr, 3), r) if thr is not None else 0
        w8 = bv.zext(w, 8)
        per_dram = bv.add(bv.const(4, 8), w8)
        per_3 = bv.add(bv.const(3, 8), w8)
        per = bv.ite(dram, per_dram, bv.ite(st3, per_3, bv.const(2, 8)))
        if kind in WORD_KINDS:
            per = bv.ite(bus8, bv.shl_const(per, 1), per)
        v = bv.mul(state, per)
        val = bv.ite(sel, v, val)
    val = bv.ite(ram, bv.mul(state, bv.const(2, 8)), val)
    return inarea, val


def run(ctx, res):
    facts = ctx["facts"]
    # hidden state between the registers and the cost: a cache of decoded bus settings must be invalidated by a write to EVERY register it was decoded from
    try:
        from rules import c09 as c09mod
        k_csa_ = facts.body("cpu::Cpu::calc_state_with_addr")["key"]
        for key_, msg_ in c09mod.cache_coherence(facts, res, entry_keys=[k_csa_]):
            res.ob(False)
            res.finding(key_, msg_)
    except Exception as e_:      # noqa
        res.errors.append("cache rule: %s" % str(e_)[:300])
    res.explanation = ("Complete decision table of calc_state_with_addr: for each of the six cycle kinds the body is analysed once with a symbolic 32-bit "
                       "address, symbolic count and symbolic ABWCR/ASTCR/WCRH/WCRL/DRCRA; the returned charge is compared for ALL values with the "
                       "reference (internal 1; on-chip RAM 2; external 2 / 3+w per access, two accesses for word-sized kinds on an 8-bit bus; DRAM 4+w), "
                       "linear in the count, depending only on the accessed area's settings.")
    res.rule = "forall kind in {I,J,K,L,M,N}, addr, n, registers: calc_state_with_addr(kind,n,addr) == reference(kind,n,addr,registers) (BDD equality)"
    res.trusted = ["rustc MIR", "h8facts", "interp.py/models.py transfer functions", "bdd.py", "reference cost function in rules/c19.py"]
    res.assumptions = ["addresses inside the on-chip I/O register ranges are excluded (documented TODO in the property)",
                       "count <= 18 for the non-internal kinds (larger counts are not used by any instruction; see C15 for the overflow obligation)",
                       "Bus::read of the five bus-controller register addresses succeeds and returns the register (C09)"]
    res.exhaustive = True
    res.not_decided = []
    consts = {n: facts.const_int(n) for n in ("memory::MEMORY_START_ADDR", "memory::MEMORY_END_ADDR")}
    consts = {"MEMORY_START_ADDR": consts["memory::MEMORY_START_ADDR"], "MEMORY_END_ADDR": consts["memory::MEMORY_END_ADDR"]}
    regaddr = {n: facts.const_int("registers::" + n) for n in ("ABWCR", "ASTCR", "WCRH", "WCRL", "DRCRA")}
    expect = {"ABWCR": 0xFEE020, "ASTCR": 0xFEE021, "WCRH": 0xFEE022, "WCRL": 0xFEE023, "DRCRA": 0xFEE026}
    for n, a in expect.items():
        res.ob(regaddr[n] == a)
        if regaddr[n] != a:
            res.finding("regaddr:" + n, "bus-controller register %s is read at 0x%x, hardware manual: 0x%x" % (n, regaddr[n], a))
    max_mult = 0
    for kind_idx, kind in enumerate(KINDS):
        bv.reset()
        I = isamod.Isa(facts)
        ip = I.make_interp()
        # analyse the real body, not the summary
        del ip.primitives[I.k_csa]
        del ip.primitives[I.k_cs]
        regs = {n: bv.data_bv(n.lower(), 8) for n in regaddr}
        byaddr = {a: n for n, a in regaddr.items()}
        unknown_reads = []

        def p_bus_read(ip_, st, fr, t, args, byaddr=byaddr, regs=regs, unknown_reads=unknown_reads):
            a = bv.to_int(args[1].bits) if isinstance(args[1], Int) else None
            if a in byaddr:
                st.add_eff(("regread", byaddr[a]))
                return Enum(models.OK, [Int(regs[byaddr[a]])])
            unknown_reads.append(a)
            return [(None, Enum(models.OK, [Int(bv.data_bv("mx%d" % st.count("mx"), 8))])), (None, Enum(models.ERR, [Opaque("buserr")]))]
        ip.primitives[I.k_busread] = p_bus_read
        addr = bv.top_bv("addr", 32, 20)
        # the count: fully symbolic for internal cycles, 5 symbolic bits (0..31, restricted to <= 18) otherwise
        state = bv.data_bv("n", 8) if kind == "N" else bv.data_bv("n", 5) + (0, 0, 0)
        cpu = I.fresh_cpu()
        kval = Enum(I.kind_names.index(kind), ())
        outs = ip.run_all(I.k_csa, [Ref(isamod.CPU_ROOT, ()), kval, Int(state), Int(addr)], {isamod.CPU_ROOT: cpu})
        Mx = bv.M
        # care set
        io1 = Mx.AND(bv.ule(bv.const(0xFEE000, 32), addr), bv.ule(addr, bv.const(0xFEE0FF, 32)))
        io2 = Mx.AND(bv.ule(bv.const(0xFFFF20, 32), addr), bv.ule(addr, bv.const(0xFFFFE9, 32)))
        care0 = Mx.NOT(Mx.OR(io1, io2))
        if kind != "N":
            care0 = Mx.AND(care0, bv.ule(state, bv.const(18, 8)))
        okc, ref = reference(kind, state, addr, regs, consts)
        seen_ok = 0
        total = 0
        for o in outs:
            total = Mx.OR(total, o.state.pc)
            if any(t in o.state.tags for t in ("opaque-switch", "opaque-assert", "unknown-callee")):
                res.errors.append("imprecise trace for kind %s: %r" % (kind, o.state.tags))
                continue     # an imprecisely followed trace decides nothing
            care = Mx.AND(o.state.pc, care0)
            if o.kind == "panic":
                # a panic is judged on EVERY address (the property excludes the on-chip I/O register ranges only from the cost VALUE; the guest
                # can place an operand, its stack or code there), for the counts the instructions use
                carep = o.state.pc if kind == "N" else Mx.AND(o.state.pc, bv.ule(state, bv.const(18, 8)))
                if carep == 0:
                    continue
                res.ob(False)
                w = isacheck.group_witness(Mx.describe_assign(Mx.sat_one(carep)))
                res.finding("%s|panic:%s" % (kind, o.info.get("kind")), "calc_state_with_addr(%s) can panic (%s) for a count within the used range%s"
                            % (kind, o.info.get("kind"), "" if care != 0 else " at an on-chip I/O register address"), w)
                continue
            if care == 0:
                continue
            if o.kind != "return" or not isinstance(o.value, Enum):
                res.errors.append("unexpected outcome %s for kind %s" % (o.kind, kind))
                continue
            if o.value.variant == models.ERR:
                bad = Mx.AND(care, okc)
                res.ob(bad == 0)
                if bad != 0:
                    w = isacheck.group_witness(Mx.describe_assign(Mx.sat_one(bad)))
                    res.finding("%s|error-for-valid-address" % kind, "calc_state_with_addr(%s) returns an error for an address below 2^24" % kind, w)
                continue
            bad = Mx.AND(care, Mx.NOT(okc))
            res.ob(bad == 0)
            if bad != 0:
                w = isacheck.group_witness(Mx.describe_assign(Mx.sat_one(bad)))
                res.finding("%s|ok-for-invalid-address" % kind, "calc_state_with_addr(%s) succeeds for an address at or above 2^24" % kind, w)
            v = o.value.fields[0]
            if not isinstance(v, Int):
                res.errors.append("opaque charge for kind %s" % kind)
                continue
            care = Mx.AND(care, okc)
            seen_ok = Mx.OR(seen_ok, care)
            d = 0
            for x, y in zip(v.bits, ref):
                if x != y:
                    di = Mx.AND(Mx.XOR(x, y), care)
                    if di != 0:
                        d = di
                        break
            res.ob(d == 0)
            if d != 0:
                a = Mx.sat_one(d)
                w = isacheck.group_witness(Mx.describe_assign(a))
                env = dict(a)
                got = sum(Mx.eval(b, env) << i for i, b in enumerate(v.bits))
                exp = sum(Mx.eval(b, env) << i for i, b in enumerate(ref))
                w["charge_emulator"] = got
                w["charge_reference"] = exp
                res.finding("%s|charge" % kind, "calc_state_with_addr(%s): charge differs from the reference cost function" % kind, w)
            res.evaluations += 1
            if len(res.samples) < 6:
                res.samples.append({"kind": kind, "trace_effects": [e for e in o.state.eff if e[0] == "regread"], "support": sorted(set(n.split(".")[0] for n in Mx.support_names(Mx.or_all(list(v.bits)))))})
        if total != 1:
            res.errors.append("traces of kind %s do not cover the input space" % kind)
        if ip.unknown_callees:
            res.errors.append("unmodelled callees: %r" % ip.unknown_callees)
        if unknown_reads:
            res.finding("%s|reads-other-address" % kind, "cost function reads bus addresses other than the five bus-controller registers: %r" % unknown_reads[:4])
        res.ob(not unknown_reads)
        res.distinct += 1
        res.inventory["traces_" + kind] = len(outs)
        # bound on the per-cycle multiplier (used as an assumption by the instruction-level analysis)
        unit_okc, unit = reference(kind, bv.const(1, 8), addr, regs, consts)
        over = Mx.AND(Mx.NOT(bv.ule(unit, bv.const(isamod.MAX_COST_MULT, 8))), Mx.AND(care0, unit_okc))
        res.ob(over == 0)
        if over != 0:
            res.finding("%s|multiplier-bound" % kind, "per-cycle cost can exceed %d" % isamod.MAX_COST_MULT)
    # calc_state: rejects L/M and costs at operating_pc
    bv.reset()
    I = isamod.Isa(facts)
    ip = I.make_interp()
    del ip.primitives[I.k_cs]
    seen = []

    def p_csa(ip_, st, fr, t, args):
        seen.append((args[1], args[2], args[3]))
        st.add_eff(("csa",))
        return Enum(models.OK, [Int(bv.data_bv("r", 8))])
    ip.primitives[I.k_csa] = p_csa
    for kind in KINDS:
        cpu = I.fresh_cpu()
        seen.clear()
        outs = ip.run_all(I.k_cs, [Ref(isamod.CPU_ROOT, ()), Enum(I.kind_names.index(kind), ()), Int(bv.data_bv("n", 8))], {isamod.CPU_ROOT: cpu})
        oks = [o for o in outs if o.kind == "return" and isinstance(o.value, Enum) and o.value.variant == models.OK]
        if kind in ("L", "M"):
            res.ob(not oks)
            if oks:
                res.finding("calc_state|%s-accepted" % kind, "calc_state accepts data-cycle kind %s without an address" % kind)
        else:
            good = len(oks) == 1 and len(seen) == 1 and isinstance(seen[0][2], Int) and seen[0][2].bits == bv.data_bv("opc", 32) and isinstance(seen[0][0], Enum) and seen[0][0].variant == I.kind_names.index(kind)
            res.ob(good)
            if not good:
                res.finding("calc_state|%s-not-at-own-pc" % kind, "calc_state(%s) is not costed at the instruction's own address (operating_pc) with the same kind" % kind)
    res.floor("cycle kinds analysed", res.distinct, 6)
    res.floor("obligations", res.obligations, 40)
