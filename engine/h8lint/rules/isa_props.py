"""Properties decided by the instruction-level analysis (C01-C08, C20)."""
import isarun
import isa_extra
import spec

CFG = {
    "C01": dict(classes=["sem:C01"], families={"MOV"}, forms_floor=44,
                what="MOV/PUSH/POP: for every trace of Cpu::exec that intersects a MOV encoding, the value written, the N/Z/V updates, "
                     "every other CCR bit, all eight general registers (hence the +/- address-register step and 'no other register'), the ordered "
                     "byte accesses (address and big-endian lane) and the PC/length are compared, as BDD bit-vectors over all operand values, "
                     "with the reference semantics of spec.py"),
    "C02": dict(classes=["sem:C02"], families={"ADD", "ADDS", "ADDX", "SUB", "SUBS", "CMP", "INC", "DEC", "NEG", "MULXU", "DIVXU"}, forms_floor=42,
                what="arithmetic group: result, H/N/Z/V/C as exact bit-level functions (ripple-carry BDDs, interleaved order) for 8/16/32 bit; "
                     "16x16 products and quotients as uninterpreted functions of the routed operands"),
    "C03": dict(classes=["sem:C03"], families={"AND", "OR", "XOR", "NOT", "EXTU", "SHLL", "SHAL", "SHLR", "SHAR", "ROTL", "ROTR", "ROTXL", "ROTXR"}, forms_floor=47,
                what="logic/shift/rotate group: result and flags bit for bit"),
    "C04": dict(classes=["sem:C04"], families={"BSET", "BCLR", "BNOT", "BTST", "BST", "BIST", "BLD", "BILD", "BAND", "BIAND", "BOR", "BIOR", "BXOR", "BIXOR"}, forms_floor=54,
                what="bit-manipulation group: operand byte after the instruction, C/Z, for all bit numbers and all byte values"),
    "C05": dict(classes=["sem:C05"], families={"Bcc", "JMP", "BSR", "JSR", "RTS"}, forms_floor=41,
                what="branches/jumps/calls/returns: condition table over all 256 CCR values, target, frame bytes, SP, flags untouched"),
    "C06": dict(classes=["sem:C06"], families={"RTE", "TRAPA"}, forms_floor=2,
                what="TRAPA/RTE and the interrupt-entry sequence: frame layout, SP, I bit, vector address, PC from the low 24 bits"),
    "C07": dict(classes=["decode"], families=None, forms_floor=230,
                what="decode partition: every trace of Cpu::exec is intersected with every encoding pattern; valid encodings of implemented forms must "
                     "consume exactly their length and must not be rejected; encodings of the listed unimplemented instructions must have no Ok path"),
    "C08": dict(classes=["addr"], families=None, forms_floor=230,
                what="effective addresses: the address operand of every Bus::read/Bus::write reached from an instruction, and the address-register "
                     "write-back of +/- and stack forms, compared with the manual's EA modulo 2^24"),
    "C20": dict(classes=["cost"], families=None, forms_floor=230,
                what="per-instruction charge: multiset of (kind, count, address) cost terms per form against the manual's advanced-mode table and "
                     "returned charge == sum of the terms"),
}

TRUSTED = ["rustc MIR construction and constant evaluation (dev profile, overflow checks on)", "engine/h8facts serialisation",
           "transfer functions of engine/h8lint/interp.py and models.py", "ROBDD package engine/h8lint/bdd.py",
           "reference semantics engine/h8lint/spec.py (transcribed from the H8/300H programming manual)"]


def run(ctx, res):
    prop = ctx["prop"]
    cfg = CFG[prop]
    facts = ctx["facts"]
    agg = isarun.run(facts.path)
    extra = []
    for cond_, name_, fn_ in ((prop in ("C01", "C07", "C20"), "fetch summary", isa_extra.check_fetch), (prop in ("C06", "C08"), "interrupt entry", isa_extra.check_interrupt)):
        if cond_:
            try:
                extra.append((name_, fn_(facts)))
            except RuntimeError as e_:
                res.errors.append("%s: %s" % (name_, e_))
    if prop == "C06":
        # exception entry must read the vector table itself: a cached copy that Bus::write cannot invalidate is a stale vector
        from rules import c09
        import cli as _cli
        r9 = _cli.Result("C09")
        c09.stale_copies(facts, r9)
        for f_ in r9.findings:
            if any(w_ in f_["msg"].split(" ")[0] for w_ in ("interrupt", "trapa", "rte")):
                res.finding(f_["key"], f_["msg"], f_["witness"], f_["detail"])
        res.obligations += r9.obligations
        res.discharged += r9.discharged
    spec.build()
    res.explanation = cfg["what"] + ". Static: nothing of /repo is executed; the traces are abstract (trace partitioning on decode fields, state merging on data branches)."
    res.rule = "for all traces t of Cpu::exec, for all forms F with pc(t) & enc(F) != 0: summary(t) == manual(F) on pc(t) & enc(F) & pre(F)"
    res.trusted = TRUSTED
    res.assumptions = ["PC at entry has a zero top byte and the first word was fetched from mapped memory",
                       "Bus::read/Bus::write, Cpu::fetch, calc_state(_with_addr) are summarised (validated by C09, fetch-summary rule, C19)",
                       "cost multipliers are bounded by 14 states per cycle (C19)"]
    res.exhaustive = True
    # findings
    for f in agg["findings"].values():
        if "ENGINE" in f["props"]:
            res.errors.append("engine: %s %s" % (f["key"], f["msg"]))
        elif prop in f["props"]:
            res.finding(f["key"], f["msg"], f["witness"], f["detail"])
    for name, ex in extra:
        for f in ex["findings"]:
            if prop in f["props"]:
                res.finding(f["key"], f["msg"], f["witness"], f["detail"])
        res.obligations += ex["ob"][0]
        res.discharged += ex["ob"][1]
        res.inventory[name] = {k: v for k, v in ex.items() if k != "findings"}
    for c in cfg["classes"]:
        o = agg["ob"].get(c, [0, 0])
        res.obligations += o[0]
        res.discharged += o[1]
    fams = cfg["families"]
    forms = {n: s for n, s in agg["forms"].items()}
    byname = {f.name: f for f in spec.FORMS}
    mine = [n for n in forms if fams is None or byname[n].family in fams]
    okforms = [n for n in mine if forms[n]["ok"] > 0]
    res.evaluations = sum(forms[n]["traces"] for n in mine)
    res.distinct = len(okforms)
    res.floor("forms with an Ok trace", len(okforms), cfg["forms_floor"])
    res.floor("traces of Cpu::exec", agg["traces"], 1500)
    if not agg["complete"]:
        res.errors.append("the traces do not partition the input space (engine bug)")
    if agg["unknown_callees"]:
        res.errors.append("unmodelled callees met: %r" % agg["unknown_callees"])
    if prop == "C07":
        res.floor("unimplemented-instruction patterns checked", agg["unimpl_checked"], 27)
    res.inventory.update({"traces": agg["traces"], "trace_kinds": agg["trace_kinds"], "mir_statements_interpreted": agg["stmts"],
                          "bdd_nodes": agg["nodes"], "forms_total": len(forms), "forms_of_property": len(mine), "obligation_classes": agg["ob"],
                          "undecided_array_cases": agg["undecided"], "isa_wall_s": round(agg["wall"], 2)})
    res.samples = agg.get("samples", [])[:6] + [{"form": n, "traces": forms[n]} for n in sorted(mine)[:4]]
