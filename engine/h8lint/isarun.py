"""Parallel driver of the instruction-level analysis: the 256 values of the first
opcode byte are distributed over worker processes; each worker analyses Cpu::exec
under that constraint and compares the traces with the reference semantics."""
import multiprocessing as mp
import os
import time

import bv
import facts as factsmod
import isa as isamod
import isacheck

# heavier first bytes first so that the pool balances
HEAVY = [0x01, 0x0F, 0x7A, 0x78, 0x50, 0x79, 0x0A, 0x1A, 0x6B, 0x6A, 0x7C, 0x7D, 0x7E, 0x7F, 0x58, 0x0B, 0x1B, 0x10, 0x11, 0x12, 0x13, 0x17]

_F = None


def _init(path):
    global _F
    _F = factsmod.Facts(path)


class IsaRunError(Exception):
    pass


def _work(chunk):
    try:
        return _work1(chunk)
    except Exception:
        import traceback
        return {"chunk": chunk, "error": traceback.format_exc()[-1500:]}


def _work1(chunk):
    t0 = time.time()
    bv.reset()
    from interp import Interp
    Interp.VISITED = set()
    I = isamod.Isa(_F)

    def cons(w0):
        c = 0
        for hb in chunk:
            c = bv.M.OR(c, bv.eq(w0[8:], bv.const(hb, 8)))
        return c
    ip, outs, w0 = I.run_exec(cons)
    constraint = cons(w0)
    ck = isacheck.IsaCheck(I, ip, outs, w0, constraint)
    fs = ck.run()
    kinds = {}
    for o in outs:
        kinds[o.kind] = kinds.get(o.kind, 0) + 1
    return {
        "chunk": chunk,
        "findings": [f.to_json() for f in fs.values()],
        "obligations": ck.obligations,
        "ob": ck.ob,
        "discharged": ck.discharged,
        "traces": len(outs),
        "trace_kinds": kinds,
        "forms": ck.form_stats,
        "complete": ck.partition_complete,
        "unimpl_checked": ck.unimpl_checked,
        "undecided": getattr(ck, "undecided", 0),
        "unknown_callees": ip.unknown_callees,
        "interp": ip.stats,
        "nodes": len(bv.M.var),
        "wall": time.time() - t0,
        "samples": ck.samples[:3],
        "visited": sorted(Interp.VISITED),
        "cost_sites": I.cost_sites,
        "stray": getattr(ck, "stray", {}),
    }


def run(facts_path, workers=None):
    workers = workers or min(16, os.cpu_count() or 4)
    rest = [b for b in range(256) if b not in HEAVY]
    chunks = [[b] for b in HEAVY]
    n = 8
    for i in range(0, len(rest), n):
        chunks.append(rest[i:i + n])
    t0 = time.time()
    budget = float(os.environ.get("H8_ISA_BUDGET", "2400"))
    with mp.Pool(workers, initializer=_init, initargs=(facts_path,)) as pool:
        fut = pool.map_async(_work, chunks, chunksize=1)
        try:
            res = fut.get(timeout=budget)
        except mp.TimeoutError:
            pool.terminate()
            raise IsaRunError("instruction-level analysis exceeded its time budget of %.0f s (H8_ISA_BUDGET); no verdict" % budget)
    bad = [r for r in res if "error" in r]
    if bad:
        raise IsaRunError("instruction-level analysis failed on first byte(s) %s:\n%s" % (
            ", ".join("0x%02x" % r["chunk"][0] for r in bad), bad[0]["error"]))
    agg = {"findings": {}, "ob": {}, "obligations": 0, "discharged": 0, "traces": 0, "trace_kinds": {}, "forms": {}, "complete": True,
           "unimpl_checked": 0, "undecided": 0, "unknown_callees": {}, "nodes": 0, "stmts": 0, "chunks": len(chunks)}
    for r in res:
        for f in r["findings"]:
            agg["findings"].setdefault(f["key"], f)
        for k in ("obligations", "discharged", "traces", "unimpl_checked", "undecided", "nodes"):
            agg[k] += r[k]
        agg["stmts"] += r["interp"].get("stmts", 0)
        for k, v in r["ob"].items():
            d = agg["ob"].setdefault(k, [0, 0])
            d[0] += v[0]
            d[1] += v[1]
        if len(agg.setdefault("samples", [])) < 8:
            agg["samples"].extend(r["samples"][:1])
        for k, v in r["trace_kinds"].items():
            agg["trace_kinds"][k] = agg["trace_kinds"].get(k, 0) + v
        for k, v in r["forms"].items():
            d = agg["forms"].setdefault(k, {"traces": 0, "ok": 0, "err": 0, "panic": 0})
            for kk in d:
                d[kk] += v[kk]
        agg["complete"] = agg["complete"] and r["complete"]
        agg.setdefault("visited", set()).update(r["visited"])
        agg.setdefault("stray", {}).update({"%02x" % k: v for k, v in r.get("stray", {}).items()})
        for k, v in r.get("cost_sites", {}).items():
            d = agg.setdefault("cost_sites", {}).setdefault(k, [0, 0, None, v[3]])
            d[0] += v[0]
            d[1] += v[1]
            if d[2] is None:
                d[2] = v[2]
        for k, v in r["unknown_callees"].items():
            agg["unknown_callees"][k] = agg["unknown_callees"].get(k, 0) + v
    agg["wall"] = time.time() - t0
    agg["slowest"] = sorted(((r["wall"], r["chunk"][0]) for r in res), reverse=True)[:5]
    return agg


if __name__ == "__main__":
    import sys
    import json
    a = run(sys.argv[1])
    fs = a.pop("findings")
    forms = a.pop("forms")
    print(json.dumps(a, indent=1))
    print(len(forms), "forms;", len(fs), "findings")
    sel = sys.argv[2] if len(sys.argv) > 2 else None
    for k, f in sorted(fs.items(), key=lambda kv: (kv[1]["props"], kv[0])):
        if sel and sel not in f["props"]:
            continue
        w = {a_: b for a_, b in (f["witness"] or {}).items() if not (a_[0] in "ck" and a_[1:].isdigit())}
        print(f["props"], k, "::", str(w)[:140])
