#!/usr/bin/env python3
"""./check --setup | ./check Cxx [--tier quick|thorough] [--replay file]

exit 0: the property held on everything analysed (known findings are printed as
        KNOWN-FINDING lines); exit 1: VIOLATION line(s); exit 2: checker error
        (facts missing, floor not met, anchor not found) - fail closed."""
import hashlib
import importlib
import json
import os
import subprocess
import sys
import time
import traceback

HERE = os.path.dirname(os.path.abspath(__file__))
sys.path.insert(0, HERE)
VERIF = os.path.dirname(os.path.dirname(HERE))

import facts as factsmod  # noqa: E402

RULES = {
    "C01": ("rules.isa_props", "C01"), "C02": ("rules.isa_props", "C02"), "C03": ("rules.isa_props", "C03"),
    "C04": ("rules.isa_props", "C04"), "C05": ("rules.isa_props", "C05"), "C06": ("rules.isa_props", "C06"),
    "C07": ("rules.isa_props", "C07"), "C08": ("rules.isa_props", "C08"), "C20": ("rules.isa_props", "C20"),
    "C09": ("rules.c09", None), "C10": ("rules.c10", None), "C11": ("rules.c11", None), "C12": ("rules.c12", None),
    "C13": ("rules.c13", None), "C14": ("rules.c14", None), "C15": ("rules.c15", None), "C16": ("rules.c16", None),
    "C17": ("rules.c17", None), "C18": ("rules.c18", None), "C19": ("rules.c19", None),
}


class Result:
    def __init__(self, prop):
        self.prop = prop
        self.findings = []        # dicts: key, msg, witness, detail
        self.obligations = 0
        self.discharged = 0
        self.evaluations = 0
        self.distinct = 0
        self.samples = []
        self.explanation = ""
        self.rule = ""
        self.trusted = []
        self.assumptions = []
        self.exhaustive = False
        self.inventory = {}
        self.floors = []          # (name, measured, floor)
        self.errors = []          # engine problems -> exit 2
        self.not_decided = []

    def finding(self, key, msg, witness=None, detail=None):
        if any(f["key"] == key for f in self.findings):
            return
        self.findings.append({"key": key, "msg": msg, "witness": witness, "detail": detail or {}})

    def ob(self, ok, n=1):
        self.obligations += n
        if ok:
            self.discharged += n

    def floor(self, name, measured, floor):
        self.floors.append((name, measured, floor))


def setup():
    eng = os.path.join(VERIF, "engine", "h8facts")
    env = dict(os.environ)
    env["CARGO_NET_OFFLINE"] = "true"
    p = subprocess.run(["cargo", "+nightly", "build", "--release", "--offline"], cwd=eng, env=env)
    if p.returncode != 0:
        print("setup: building the fact extractor failed")
        return 2
    import compileall
    compileall.compile_dir(HERE, quiet=1)
    # warm the dependency build of /repo and confirm the driver runs
    try:
        f = factsmod.load("dev")
        print("setup: %d bodies extracted" % len(f.bodies))
    except Exception as e:  # noqa
        print("setup: fact extraction failed: %s" % e)
        return 2
    return 0


def thorough_extras(prop, mod, arg, seed, res):
    """thorough tier = the quick analysis, plus (a) the same rule over the RELEASE-profile MIR (overflow checks
    off: arithmetic wraps instead of panicking - the build users run), plus (b) mutation controls: every
    selftest/<name>.patch registered for this property is applied to a scratch copy of /repo's current
    working tree and the rule must report it (benign variants must stay silent).  Nothing is executed."""
    # (a) release profile
    rfacts = factsmod.load("release")
    rres = Result(prop)
    mod.run({"facts": rfacts, "tier": "thorough", "seed": seed, "prop": prop, "arg": arg}, rres)
    have = set(f["key"] for f in res.findings)
    for f in rres.findings:
        if f["key"] not in have:
            f = dict(f)
            f["msg"] += " [release profile only]"
            res.findings.append(f)
    res.obligations += rres.obligations
    res.discharged += rres.discharged
    res.evaluations += rres.evaluations
    for e in rres.errors:
        res.errors.append("release profile: " + e)
    for n, m, fl in rres.floors:
        res.floors.append(("release profile: " + n, m, fl))
    res.inventory["release_profile"] = {"facts_file": os.path.basename(rfacts.path), "obligations": rres.obligations, "discharged": rres.discharged,
                                        "findings": [f["key"] for f in rres.findings]}
    # (a2) the same analysis with state merging disabled (pure trace partitioning): the verdicts must agree
    if True:
        os.environ["H8_NO_MERGE"] = "1"
        try:
            nres = Result(prop)
            dfacts = factsmod.load("dev")
            mod.run({"facts": dfacts, "tier": "thorough", "seed": seed, "prop": prop, "arg": arg}, nres)
        finally:
            del os.environ["H8_NO_MERGE"]
        base_keys = set(f["key"] for f in res.findings if "[release profile only]" not in f["msg"])
        nk = set(f["key"] for f in nres.findings)
        res.ob(nk == base_keys)
        if nk != base_keys:
            res.errors.append("merged and unmerged analyses disagree: only merged %r, only unmerged %r" % (sorted(base_keys - nk)[:4], sorted(nk - base_keys)[:4]))
        for e in nres.errors:
            res.errors.append("unmerged analysis: " + e)
        res.obligations += nres.obligations
        res.discharged += nres.discharged
        res.inventory["unmerged_analysis"] = {"obligations": nres.obligations, "discharged": nres.discharged, "findings": sorted(nk)}
    # (b) mutation controls on scratch copies
    idxp = os.path.join(VERIF, "selftest", "index.json")
    if not os.path.exists(idxp):
        res.errors.append("selftest/index.json missing: no mutation controls")
        return
    with open(idxp) as fh:
        ctl = [e for e in json.load(fh) if e["property"] == prop]
    import shutil
    import tempfile
    report = []
    ran = 0
    for e in ctl:
        d = tempfile.mkdtemp(prefix="h8ctl-")
        try:
            scratch = os.path.join(d, "repo")
            subprocess.check_call(["rsync", "-a", "--exclude", "target", "--exclude", ".git", factsmod.REPO + "/", scratch + "/"])
            pa = subprocess.run(["patch", "-p1", "-s", "--no-backup-if-mismatch", "-d", scratch, "-i", os.path.join(VERIF, "selftest", e["name"] + ".patch")],
                                stdout=subprocess.PIPE, stderr=subprocess.STDOUT, text=True)
            if pa.returncode != 0:
                report.append({"control": e["name"], "status": "skipped: the patch does not apply to the current tree"})
                continue
            out = os.path.join(d, "out.json")
            env = dict(os.environ, H8_REPO=scratch)
            pr = subprocess.run([sys.executable, os.path.join(HERE, "cli.py"), prop, "--tier", "quick", "--json-out", out], env=env, stdout=subprocess.PIPE, stderr=subprocess.STDOUT, text=True)
            if not os.path.exists(out):
                report.append({"control": e["name"], "status": "checker failed on the mutated copy", "output": pr.stdout[-300:]})
                res.errors.append("mutation control %s: the checker failed on the mutated copy" % e["name"])
                continue
            with open(out) as fh:
                r = json.load(fh)
            ran += 1
            if e.get("benign"):
                okc = not r["findings"] or set(r["findings"]) <= set(f["key"] for f in res.findings)
                report.append({"control": e["name"], "kind": "benign variant", "status": "silent" if okc else "FALSE ALARM", "findings": r["findings"][:3]})
                if not okc:
                    res.errors.append("mutation control %s (benign variant) raises %r: the rule over-approximates" % (e["name"], r["findings"][:3]))
            else:
                okc = any(e["expect"] in k for k in r["findings"])
                report.append({"control": e["name"], "kind": "seeded fault", "status": "caught" if okc else "MISSED", "expected": e["expect"], "findings": r["findings"][:3]})
                if not okc:
                    res.errors.append("mutation control %s is not reported (expected a finding containing %r): the rule lost its teeth" % (e["name"], e["expect"]))
            res.ob(okc)
        finally:
            shutil.rmtree(d, ignore_errors=True)
    res.inventory["mutation_controls"] = report
    res.inventory["mutation_controls_run"] = ran


def load_known():
    p = os.path.join(VERIF, "known_findings.json")
    if not os.path.exists(p):
        return {"known": [], "fixed": []}
    with open(p) as fh:
        return json.load(fh)


def guard_resources():
    """a check never hangs or exhausts the machine: address-space limit and wall-clock budget, both -> checker error"""
    import resource
    import signal
    gb = float(os.environ.get("H8_MEM_GB", "24"))
    try:
        resource.setrlimit(resource.RLIMIT_AS, (int(gb * (1 << 30)), int(gb * (1 << 30))))
    except (ValueError, OSError):
        pass

    def on_alarm(signum, frame):
        raise TimeoutError("the check exceeded its wall-clock budget (H8_CHECK_BUDGET s)")
    signal.signal(signal.SIGALRM, on_alarm)
    signal.alarm(int(float(os.environ.get("H8_CHECK_BUDGET", "5400"))))


def main(argv):
    if len(argv) >= 1 and argv[0] == "--setup":
        return setup()
    guard_resources()
    if not argv:
        print(__doc__)
        return 2
    prop = argv[0]
    tier = os.environ.get("VERIF_TIER", "quick")
    replay = None
    i = 1
    while i < len(argv):
        if argv[i] == "--tier":
            tier = argv[i + 1]
            i += 2
        elif argv[i] == "--replay":
            replay = argv[i + 1]
            i += 2
        else:
            i += 1
    seed = int(os.environ.get("VERIF_SEED", "0") or 0)
    if prop not in RULES:
        print("unknown property", prop)
        return 2
    if replay:
        with open(replay) as fh:
            rep = json.load(fh)
        print(json.dumps(rep, indent=1))
        print("re-evaluating the rule on the current tree ...")
    t0 = time.time()
    modname, arg = RULES[prop]
    res = Result(prop)
    json_out = None
    if "--json-out" in argv:
        json_out = argv[argv.index("--json-out") + 1]
    try:
        facts = factsmod.load("dev")
        mod = importlib.import_module(modname)
        ctx = {"facts": facts, "tier": tier, "seed": seed, "prop": prop, "arg": arg}
        mod.run(ctx, res)
        if tier == "thorough" and json_out is None:
            thorough_extras(prop, mod, arg, seed, res)
    except factsmod.FactsError as e:
        print("CHECKER-ERROR property=%s facts: %s" % (prop, e))
        return 2
    except Exception as e:  # noqa
        traceback.print_exc()
        print("CHECKER-ERROR property=%s %s: %s" % (prop, type(e).__name__, e))
        return 2
    wall = time.time() - t0
    if json_out is not None:
        # used by the mutation controls: findings and errors only, no evidence / replay files
        for name, measured, floor in res.floors:
            if measured < floor:
                res.errors.append("floor not met: %s" % name)
        with open(json_out, "w") as fh:
            json.dump({"findings": [f["key"] for f in res.findings], "errors": res.errors}, fh)
        return 0
    known = load_known()
    kmap = {}
    for k in known.get("known", []):
        if k["property"] == prop:
            kmap[k["key"]] = k
    viol = []
    knownhits = []
    for f in res.findings:
        k = kmap.get(f["key"])
        if k is not None:
            ext = k.get("extent")
            got = (f.get("detail") or {}).get("extent")
            beh = k.get("behaviour")
            gotb = (f.get("detail") or {}).get("behaviour")
            same_ext = ext is None or got is None or ext == got
            same_beh = beh is None or gotb is None or beh == gotb
            if same_ext and same_beh:
                knownhits.append((f, k))
                continue
            f = dict(f)
            f["msg"] += " [differs from the recorded known finding: extent %s (recorded %s), behaviour %s (recorded %s)]" % (got, ext, gotb, beh)
        viol.append(f)
    status = 0
    for f, k in knownhits:
        print("KNOWN-FINDING: property=%s %s: %s" % (prop, f["key"], k.get("what", f["msg"])))
    rdir = os.path.join(VERIF, "replay", prop)
    for f in viol:
        os.makedirs(rdir, exist_ok=True)
        h = hashlib.sha1(f["key"].encode()).hexdigest()[:12]
        rp = os.path.join(rdir, h + ".json")
        with open(rp, "w") as fh:
            json.dump({"property": prop, "finding": f, "tier": tier}, fh, indent=1, default=str)
        print("VIOLATION property=%s replay=%s" % (prop, rp))
        print("  %s :: %s :: witness %s" % (f["key"], f["msg"], json.dumps(f.get("witness"), default=str)[:400]))
        status = 1
    for name, measured, floor in res.floors:
        if measured < floor:
            res.errors.append("floor not met: %s = %d < %d (a rule instance set shrank; the check would be vacuous)" % (name, measured, floor))
    seen_e = set()
    uniq = []
    for e in res.errors:
        if e not in seen_e:
            seen_e.add(e)
            uniq.append(e)
    res.errors = uniq
    for e in res.errors[:12]:
        print("CHECKER-ERROR property=%s %s" % (prop, e[:600]))
    if len(res.errors) > 12:
        print("CHECKER-ERROR property=%s ... and %d more" % (prop, len(res.errors) - 12))
    ev = {
        "property_id": prop,
        "tier": tier if tier in ("quick", "thorough") else "quick",
        "seed": seed,
        "level": "other",
        "coverage": {
            "explanation": res.explanation,
            "rule": res.rule,
            "obligations": res.obligations,
            "discharged": res.discharged,
            "evaluations": max(res.evaluations, 1),
            "distinct_nontrivial": res.distinct,
            "samples": res.samples[:8] or [{"note": "no sample recorded"}],
            "exhaustive": res.exhaustive,
            "checker_cmd": "./check %s --tier %s" % (prop, tier),
            "trusted_base": res.trusted,
            "inventory": res.inventory,
            "floors": [{"name": n, "measured": m, "floor": fl} for n, m, fl in res.floors],
            "not_decided": res.not_decided,
            "known_findings_matched": [f["key"] for f, _ in knownhits],
            "facts_file": os.path.basename(facts.path),
        },
        "assumptions": res.assumptions,
        "wall_s": round(wall, 2),
        "violations": len(viol),
    }
    os.makedirs(os.path.join(VERIF, "evidence"), exist_ok=True)
    with open(os.path.join(VERIF, "evidence", prop + ".json"), "w") as fh:
        json.dump(ev, fh, indent=1, default=str)
    if status == 1:
        return 1          # a definite violation outranks a checker error
    if res.errors:
        return 2
    if status == 0:
        print("OK property=%s obligations=%d discharged=%d known_findings=%d wall=%.1fs" % (prop, res.obligations, res.discharged, len(knownhits), wall))
    return status


if __name__ == "__main__":
    sys.exit(main(sys.argv[1:]))
