"""Abstract interpreter over MIR facts.

Domain: every integer is a vector of BDDs (canonical boolean functions of the
symbolic inputs); aggregates, enums with concrete variants, references with a
concrete target, opaque values.  Control flow is handled by trace partitioning:
at a SwitchInt/Assert whose condition is not constant under the current path
condition the trace is split and the path condition (a BDD) conjoined with the
guard.  No solver is involved; feasibility is `pc != FALSE` on canonical BDDs.

Local callees are analysed by cloning (context sensitivity); selected functions
are *primitives* with validated summaries; library callees have explicit models.
"""
import json
import os
import bv
from bv import M as _M0  # noqa


class InterpError(Exception):
    pass


# ----------------------------------------------------------------- values
class Int:
    __slots__ = ("bits",)

    def __init__(self, bits):
        self.bits = bits

    def __repr__(self):
        return "Int(%s)" % bv.fmt(self.bits)


class Agg:
    __slots__ = ("fields", "tag")

    def __init__(self, fields, tag=None):
        self.fields = tuple(fields)
        self.tag = tag      # closures: path of the closure body

    def __repr__(self):
        return "Agg%r" % (self.fields,)


class Enum:
    __slots__ = ("variant", "fields")

    def __init__(self, variant, fields=()):
        self.variant = variant
        self.fields = tuple(fields)

    def __repr__(self):
        return "Enum(%d,%r)" % (self.variant, self.fields)


class SymEnum:
    """field-less enum whose discriminant is symbolic"""
    __slots__ = ("bits",)

    def __init__(self, bits):
        self.bits = tuple(bits)

    def __repr__(self):
        return "SymEnum(%s)" % bv.fmt(self.bits)


class Ref:
    __slots__ = ("root", "path")

    def __init__(self, root, path=()):
        self.root = root
        self.path = tuple(path)

    def __repr__(self):
        return "Ref(%r,%r)" % (self.root, self.path)


class Opaque:
    __slots__ = ("tag", "data")

    def __init__(self, tag, data=None):
        self.tag = tag
        self.data = data

    def __repr__(self):
        return "Opaque(%s)" % (self.tag,)


class SymArr:
    """Array abstraction (read-over-write log over an uninterpreted initial array).
    Reads at index vector i yield the block of fresh variables keyed by i (the same
    index function always yields the same block; Ackermann constraints relate the
    blocks of possibly-equal indices, see Interp.arr_assumptions)."""
    __slots__ = ("name", "n", "width", "writes")

    def __init__(self, name, n, width, writes=()):
        self.name = name
        self.n = n
        self.width = width
        self.writes = tuple(writes)

    def __repr__(self):
        return "SymArr(%s,%d writes)" % (self.name, len(self.writes))


class SplitRequest(Exception):
    def __init__(self, bits, nvals):
        self.bits = bits
        self.nvals = nvals


class SymIdx:
    """symbolic array index step in a location path"""
    __slots__ = ("bits",)

    def __init__(self, bits):
        self.bits = bits


def unwrap_ref(v):
    """Box / Unique / NonNull wrappers around a reference -> the reference"""
    while isinstance(v, Agg) and v.fields:
        v = v.fields[0]
    return v if isinstance(v, Ref) else None


def make_box(ref):
    """Box<T> { 0: Unique { pointer: NonNull { pointer: *const T }, _marker }, 1: allocator }"""
    return Agg([Agg([Agg([ref]), UNIT]), UNIT])


UNINIT = Opaque("uninit")
UNIT = Agg(())


def is_tainted(v):
    """host-time taint marker (determinism rule)"""
    return isinstance(v, Opaque) and v.tag == "time"


def bool_int(b):
    return Int((b,))


# ----------------------------------------------------------------- state
class Frame:
    __slots__ = ("body", "fid", "bb", "dest", "ret_bb", "transform")

    def __init__(self, body, fid, bb, dest, ret_bb, transform=None):
        self.body = body
        self.fid = fid
        self.bb = bb
        self.dest = dest
        self.ret_bb = ret_bb
        self.transform = transform   # optional post-processing of the return value (models that call back into the crate)

    def copy(self):
        return Frame(self.body, self.fid, self.bb, self.dest, self.ret_bb, self.transform)


class State:
    __slots__ = ("frames", "mem", "pc", "eff", "ctr", "tags", "steps")

    def __init__(self):
        self.frames = []
        self.mem = {}
        self.pc = 1
        self.eff = ()
        self.ctr = {}
        self.tags = ()
        self.steps = 0

    def fork(self):
        s = State()
        s.frames = [f.copy() for f in self.frames]
        s.mem = dict(self.mem)
        s.pc = self.pc
        s.eff = self.eff
        s.ctr = dict(self.ctr)
        s.tags = self.tags
        s.steps = self.steps
        return s

    def count(self, name):
        v = self.ctr.get(name, 0)
        self.ctr[name] = v + 1
        return v

    def add_eff(self, e):
        self.eff = self.eff + (e,)

    def tag(self, t):
        if t not in self.tags:
            self.tags = self.tags + (t,)


class Outcome:
    """terminal result of one trace"""
    __slots__ = ("kind", "state", "value", "info")

    def __init__(self, kind, state, value=None, info=None):
        self.kind = kind      # 'return' | 'panic' | 'unreachable' | 'abort'
        self.state = state
        self.value = value
        self.info = info


class Interp:
    VISITED = set()   # keys of all bodies interpreted by any analysis of this process (coverage census of C15)

    def __init__(self, facts, primitives=None, models=None, max_steps=200000, max_paths=200000, max_depth=40):
        self.f = facts
        self.types = facts.types
        self.primitives = primitives or {}
        self.models = models or {}
        self.max_steps = max_steps
        self.max_paths = max_paths
        self.max_depth = max_depth
        self.fid_counter = 0
        self.unknown_callees = {}
        self.stats = {"paths": 0, "forks": 0, "stmts": 0, "calls": 0}
        self.enum_discr_cache = {}
        self._ipdom_cache = {}
        self.arr_blocks = {}   # (name, idx-vector) -> block of variables
        self.const_pool = {}
        self.log_arr = False
        self._region_first = False
        self.block_hooks = {}
        self.typed_unknown = None
        self.fn_full = {}
        self.ptr_metadata = None       # optional: length of an abstract slice (strmodel)
        self.opaque_cindex = None      # optional: constant-index element of an abstract slice (strmodel)
        self.opaque_index = None       # optional resolver for `slice[i]` places on abstract slices (loader)
        self.hooks_any_depth = False   # block hooks fire in callee frames too (loops inside helper functions)
        self.opaque_stores = []
        self.debug_nonint = None
        self._st = None
        self.merging = os.environ.get("H8_NO_MERGE") != "1"   # thorough tier: cross-check with pure trace partitioning
        self.no_merge_ranks = bv.decode_ranks
        self.outcomes = []
        self.mux_ranks_below = 100   # selector variables with rank < this are muxed, others split

    # ------------------------------------------------------------ type helpers
    def int_info(self, tid):
        t = self.types[tid]
        k = t["k"]
        if k == "int":
            return t["bits"], t["signed"]
        if k == "bool":
            return 1, False
        if k == "char":
            return 32, False
        return None

    def discr_bits(self, tid, variant):
        t = self.types[tid]
        if t["k"] != "adt" or "variants" not in t:
            raise InterpError("discriminant of unexpanded type %s" % t.get("s"))
        return int(t["variants"][variant]["discr"])

    def discr_width(self, enum_tid, dest_tid):
        ii = self.int_info(dest_tid)
        return ii[0] if ii else 64

    # ------------------------------------------------------------ memory model
    def loc_of(self, st, fr, place):
        """resolve a MIR place to (root, path)"""
        root = ("f", fr.fid, place["l"])
        path = ()
        for pr in place["p"]:
            k = pr["k"]
            if k == "deref":
                v = self.read_loc(st, root, path)
                if isinstance(v, Agg) and unwrap_ref(v) is not None:
                    v = unwrap_ref(v)   # deref of a Box
                if isinstance(v, Ref):
                    root, path = v.root, v.path
                elif isinstance(v, Opaque) and v.tag in ("str", "strvec", "cur", "slice"):
                    # an abstract string stands for the reference to it as well
                    root, path = ("tmpval", st.count("tmpval")), ()
                    st.mem[root] = v
                elif isinstance(v, Opaque):
                    root, path = ("opaque", v.tag), ()
                else:
                    raise InterpError("deref of non-ref %r" % (v,))
            elif k == "field":
                path = path + (pr["i"],)
            elif k == "downcast":
                path = path + (("dc", pr["v"]),)
            elif k == "index":
                iv = self.read_loc(st, ("f", fr.fid, pr["l"]), ())
                if isinstance(iv, Int):
                    c = bv.to_int(iv.bits)
                    if c is not None:
                        path = path + (c,)
                    elif isinstance(self.read_loc(st, root, path), SymArr):
                        path = path + (SymIdx(iv.bits),)
                    elif self.opaque_index is not None and isinstance(self.read_loc(st, root, path), Opaque) and \
                            self.opaque_index(st, fr, place, pr, self.read_loc(st, root, path), iv) is not None:
                        root, path = self.opaque_index(st, fr, place, pr, self.read_loc(st, root, path), iv)
                    else:
                        try:
                            path = path + (self.sym_index(st, iv.bits),)
                        except InterpError as e_:
                            raise InterpError("%s (indexing %r at %r in %s line ?)" % (e_, self.read_loc(st, root, path), (root, path), fr.body["key"]))
                else:
                    path = path + (Opaque("idx"),)
            elif k == "cindex":
                if pr["from_end"]:
                    raise InterpError("cindex from_end")
                basev_ = self.read_loc(st, root, path) if self.opaque_cindex is not None else None
                r_ = self.opaque_cindex(st, basev_, pr["off"]) if isinstance(basev_, Opaque) else None
                if r_ is not None:
                    root, path = ("tmpval", st.count("tmpval")), ()
                    st.mem[root] = r_
                else:
                    path = path + (pr["off"],)
            else:
                path = path + (Opaque("proj:" + k),)
        return root, path

    def arr_index(self, arr, step):
        nb = max(1, (arr.n - 1).bit_length())
        if isinstance(step, SymIdx):
            return tuple(step.bits[:nb]) + (0,) * max(0, nb - len(step.bits))
        if isinstance(step, int):
            return bv.const(step, nb)
        # unanalysable index: an arbitrary element (recorded)
        self.opaque_stores.append((arr.name, "index:" + repr(step)[:40]))
        return bv.seq_bv("opaque_index%d" % len(self.opaque_stores), nb)

    def arr_block(self, name, width, idx):
        key = (name, idx)
        b = self.arr_blocks.get(key)
        if b is None:
            c = bv.to_int(idx)
            if c is not None:
                b = bv.data_bv("%s%d" % (name, c), width)
            else:
                b = bv.data_bv("%s@%d" % (name, len(self.arr_blocks)), width)
            self.arr_blocks[key] = b
        return b

    def arr_read(self, arr, idx):
        res = self.arr_block(arr.name, arr.width, idx)
        if self._st is not None:
            self._st.add_eff(("arrread", arr.name, idx, res))
        for widx, wval in arr.writes:
            res = bv.ite(bv.eq(idx, widx), wval, res)
        return res

    def arr_assumptions(self, name):
        """Ackermann constraints: equal indices designate equal initial contents."""
        Mx = bv.M
        items = [(k[1], b) for k, b in self.arr_blocks.items() if k[0] == name]
        a = 1
        for i in range(len(items)):
            for j in range(i + 1, len(items)):
                e = bv.eq(items[i][0], items[j][0])
                if e == 0:
                    continue
                a = Mx.AND(a, Mx.OR(Mx.NOT(e), bv.eq(items[i][1], items[j][1])))
        return a

    def sym_index(self, st, bits):
        """constant under the path condition, a mux (selector made of top-level decode
        variables only) or a request to partition the trace on the index value"""
        Mx = bv.M
        bits = tuple(Mx.restrict_care(b, st.pc) for b in bits)
        nb = bv.eff_width(bits)
        if nb > 8:
            raise InterpError("symbolic index wider than 8 bits")
        feas = []
        for v in range(1 << nb):
            if Mx.AND(st.pc, bv.eq(bits, bv.const(v, len(bits)))) != 0:
                feas.append(v)
        if len(feas) == 1:
            return feas[0]
        sup = set()
        for b in bits:
            Mx.support(b, sup, set())
        if all(r < self.mux_ranks_below for r in sup):
            return SymIdx(bits)
        raise SplitRequest(bits, 1 << nb)

    def read_loc(self, st, root, path):
        if root[0] == "opaque":
            return Opaque("deref:" + str(root[1]))
        if root[0] == "const":
            v = self.const_pool[root]
        elif root[0] == "static" and root not in st.mem and root[1] in self.f.statics:
            # a static holding a wide reference: its referent is an abstract byte string of known length
            v = Opaque("str", "\0" * self.f.statics[root[1]]["fat_len"])
        else:
            v = st.mem.get(root, UNINIT)
        self._st = st if self.log_arr else None
        for step in path:
            v = self._descend(v, step)
        self._st = None
        return v

    def _descend(self, v, step):
        if isinstance(step, tuple) and step and step[0] == "dc":
            if isinstance(v, Enum):
                if v.variant != step[1]:
                    return Opaque("bad-downcast")
                return v
            return v
        if isinstance(v, Opaque):
            return Opaque("field-of:" + v.tag)
        if isinstance(v, SymArr):
            return Int(self.arr_read(v, self.arr_index(v, step)))
        if isinstance(step, SymIdx):
            if not isinstance(v, Agg):
                return Opaque("symidx-of-nonagg")
            n = len(v.fields)
            w = None
            res = None
            for i, e in enumerate(v.fields):
                if not isinstance(e, Int):
                    return Opaque("symidx-nonint")
                c = bv.eq(step.bits, bv.const(i, len(step.bits)))
                if res is None:
                    res = tuple(bv.M.AND(c, b) for b in e.bits)
                else:
                    res = tuple(bv.M.OR(r, bv.M.AND(c, b)) for r, b in zip(res, e.bits))
            return Int(res)
        if isinstance(step, Opaque):
            return Opaque("opaque-step")
        if isinstance(v, (Agg, Enum)):
            if step < len(v.fields):
                return v.fields[step]
            return Opaque("oob-field")
        raise InterpError("descend %r into %r" % (step, v))

    def write_loc(self, st, root, path, val):
        if root[0] == "opaque":
            st.tag("write-through-opaque")
            return
        if not path:
            st.mem[root] = val
            return
        old = st.mem.get(root, UNINIT)
        st.mem[root] = self._update(old, path, val)

    def _update(self, old, path, val):
        if not path:
            return val
        step = path[0]
        if isinstance(step, tuple) and step and step[0] == "dc":
            if isinstance(old, Enum):
                return Enum(old.variant, self._update(Agg(old.fields), path[1:], val).fields) if len(path) > 1 else val
            # writing a field of a not-yet-built enum variant (rare): build it
            return Enum(step[1], self._update(Agg(()), path[1:], val).fields)
        if isinstance(old, SymArr):
            idx = self.arr_index(old, step)
            if len(path) > 1:
                cur = Int(self.arr_read(old, idx))
                val = self._update(cur, path[1:], val)
            if not isinstance(val, Int):
                # an unanalysable value is stored: the element becomes a fresh unknown (recorded)
                self.opaque_stores.append((old.name, repr(val)[:60]))
                val = Int(bv.seq_bv("opaque_store%d" % len(self.opaque_stores), old.width))
            return SymArr(old.name, old.n, old.width, old.writes + ((idx, val.bits),))
        if isinstance(step, SymIdx):
            if not isinstance(old, Agg):
                return Opaque("symidx-write")
            out = []
            for i, e in enumerate(old.fields):
                c = bv.eq(step.bits, bv.const(i, len(step.bits)))
                ne = self._update(e, path[1:], val)
                if isinstance(e, Int) and isinstance(ne, Int):
                    out.append(Int(bv.ite(c, ne.bits, e.bits)))
                else:
                    out.append(Opaque("symidx-write-nonint"))
            return Agg(out)
        if isinstance(step, Opaque):
            return Opaque("write-opaque-step")
        if isinstance(old, Agg):
            fs = list(old.fields)
        elif isinstance(old, Enum):
            fs = list(old.fields)
        elif isinstance(old, Opaque):
            fs = []
        else:
            raise InterpError("update %r in %r" % (step, old))
        while len(fs) <= step:
            fs.append(UNINIT)
        fs[step] = self._update(fs[step], path[1:], val)
        if isinstance(old, Enum):
            return Enum(old.variant, fs)
        return Agg(fs, old.tag if isinstance(old, Agg) else None)

    # ------------------------------------------------------------ operands
    def const_val(self, c):
        v = c["v"]
        tid = c["ty"]
        if "int" in v:
            if "variant" in v:
                return Enum(v["variant"], ())
            t = self.types[tid]
            w = v["bits"]
            ii = self.int_info(tid)
            if ii:
                w = ii[0]
            return Int(bv.const(int(v["int"]), w))
        if "fn" in v:
            self.fn_full[v["fn"]] = v.get("full")     # last seen instantiation (used to resolve trait-method fn items)
            o_ = Opaque("fn", v["fn"])
            return o_
        if "str" in v:
            return Opaque("str", v["str"])
        if "zst" in v:
            t = self.types[tid]
            if t["k"] in ("fndef", "closure"):
                return Opaque("fn", t.get("path"))
            return UNIT
        if "ref_str" in v:
            key = ("const", "str", v["ref_str"], None)
            if key not in self.const_pool:
                self.const_pool[key] = Opaque("str", v["ref_str"])
            return Ref(key, ())
        if "ref_int" in v:
            key = ("const", v["ref_int"], v["bits"], v.get("variant"))
            if key not in self.const_pool:
                self.const_pool[key] = Enum(v["variant"], ()) if "variant" in v else Int(bv.const(int(v["ref_int"]), v["bits"]))
            return Ref(key, ())
        if "val" in v and isinstance(v["val"], dict):
            def conv0(x):
                if "int" in x:
                    return Int(bv.const(int(x["int"]), x["bits"]))
                if "variant" in x:
                    return Enum(x["variant"], [conv0(y) for y in x.get("payload", [])])
                if "fields" in x:
                    return Agg([conv0(y) for y in x["fields"]])
                if "elems" in x:
                    return Agg([conv0(y) for y in x["elems"]])
                return Opaque("const")
            return conv0(v["val"])
        if "ref_val" in v and "ref_array" not in v and "ref_struct" not in v and "ref_int" not in v:
            key = ("const", "val", json.dumps(v["ref_val"], sort_keys=True))
            if key not in self.const_pool:
                def conv(x):
                    if "int" in x:
                        return Int(bv.const(int(x["int"]), x["bits"]))
                    if "variant" in x:
                        return Enum(x["variant"], [conv(y) for y in x.get("payload", [])])
                    if "fields" in x:
                        return Agg([conv(y) for y in x["fields"]])
                    if "elems" in x:
                        return Agg([conv(y) for y in x["elems"]])
                    return Opaque("const")
                self.const_pool[key] = conv(v["ref_val"])
            return Ref(key, ())
        if "ref_array" in v:
            key = ("const", "array", v["bits"], tuple(v["ref_array"]))
            if key not in self.const_pool:
                self.const_pool[key] = Agg([Int(bv.const(int(x), v["bits"])) for x in v["ref_array"]])
            return Ref(key, ())
        if "ref_struct" in v:
            key = ("const", "struct", v.get("path"), tuple((f_["n"], f_["v"]) for f_ in v["ref_struct"]))
            if key not in self.const_pool:
                fs_ = [Int(bv.const(int(f_["v"]), f_["bits"])) for f_ in v["ref_struct"]]
                if (v.get("path") or "").endswith("ops::RangeInclusive") and len(fs_) >= 2:
                    self.const_pool[key] = Opaque("rangeincl", (fs_[0].bits, fs_[1].bits))
                else:
                    self.const_pool[key] = Agg(fs_)
            return Ref(key, ())
        if "static" in v:
            return Ref(("static", v["static"]), ())
        return Opaque("const")

    def operand(self, st, fr, o):
        k = o["k"]
        if k == "copy" or k == "move":
            root, path = self.loc_of(st, fr, o["p"])
            return self.read_loc(st, root, path)
        if k == "const":
            return self.const_val(o)
        return Opaque("operand:" + k)

    def operand_ty(self, o):
        if o["k"] in ("copy", "move"):
            return o["p"]["ty"]
        if o["k"] == "const":
            return o["ty"]
        return None

    # ------------------------------------------------------------ rvalues
    def as_bits(self, v, tid):
        """value -> bit tuple (enums with no fields become their discriminant)"""
        if isinstance(v, Int):
            return v.bits
        if isinstance(v, SymEnum):
            return v.bits
        if isinstance(v, Enum) and tid is not None:
            t = self.types[tid]
            if t["k"] == "adt" and "variants" in t:
                return bv.const(int(t["variants"][v.variant]["discr"]), 64)
        return None

    def rvalue(self, st, fr, r, dest_tid):
        k = r["k"]
        if k == "use":
            return self.operand(st, fr, r["o"])
        if k == "ref" or k == "rawptr":
            root, path = self.loc_of(st, fr, r["p"])
            return Ref(root, path)
        if k == "cast":
            v = self.operand(st, fr, r["o"])
            if is_tainted(v):
                return v
            ck = r["ck"]
            if ck == "IntToInt":
                src_t = self.operand_ty(r["o"])
                dst = self.int_info(r["ty"])
                if dst is None:
                    return Opaque("cast")
                if isinstance(v, Int):
                    sii = self.int_info(src_t)
                    signed = sii[1] if sii else False
                    return Int(bv.cast(v.bits, dst[0], signed))
                b = self.as_bits(v, src_t)
                if b is not None:
                    return Int(bv.cast(b, dst[0], False))
                return Opaque("cast")
            # pointer casts, transmute, unsize: value passes through
            tt = self.types[r["ty"]]
            if tt["k"] in ("ptr", "ref") and isinstance(v, Agg):
                u = unwrap_ref(v)
                if u is not None:
                    return u
            if tt["k"] == "int" and isinstance(v, Ref):
                return Opaque("ptr-as-int")
            return v
        if k == "bin":
            a = self.operand(st, fr, r["a"])
            b = self.operand(st, fr, r["b"])
            ta = self.operand_ty(r["a"])
            return self.binop(st, r["op"], a, b, ta, self.operand_ty(r["b"]))
        if k == "un":
            v = self.operand(st, fr, r["o"])
            op = r["op"]
            if isinstance(v, Int):
                if op == "Not":
                    return Int(bv.NOT(v.bits))
                if op == "Neg":
                    return Int(bv.neg(v.bits))
            if op == "PtrMetadata":
                if isinstance(v, Ref):
                    tgt = self.read_loc(st, v.root, v.path)
                    if isinstance(tgt, SymArr):
                        return Int(bv.const(tgt.n, 64))
                    if isinstance(tgt, Agg):
                        return Int(bv.const(len(tgt.fields), 64))
                    v = tgt
                if self.ptr_metadata is not None:
                    r_ = self.ptr_metadata(st, v)
                    if r_ is not None:
                        return r_
                return Opaque("len")
            return Opaque("unop")
        if k == "discr":
            root, path = self.loc_of(st, fr, r["p"])
            v = self.read_loc(st, root, path)
            w = self.discr_width(None, dest_tid)
            if isinstance(v, Enum):
                d = self.discr_bits(r["p"]["ty"], v.variant)
                return Int(bv.const(d, w))
            if isinstance(v, SymEnum):
                return Int(bv.cast(v.bits, w, False))
            return Opaque("discr-of", v)
        if k == "agg":
            ops = [self.operand(st, fr, o) for o in r["ops"]]
            ak = r["ak"]
            if ak == "adt":
                t = self.types[dest_tid]
                if t.get("adt") == "enum":
                    return Enum(r["variant"], ops)
                return Agg(ops)
            if ak == "closure":
                return Agg(ops, r.get("path"))
            return Agg(ops)
        if k == "repeat":
            v = self.operand(st, fr, r["o"])
            n = r["n"]
            if n is not None and n <= 64:
                return Agg((v,) * n)
            return Opaque("repeat")
        return Opaque("rvalue:" + k)

    def binop(self, st, op, a, b, ta, tb):
        if is_tainted(a) or is_tainted(b):
            if op in ("AddWithOverflow", "SubWithOverflow", "MulWithOverflow"):
                return Agg((Opaque("time"), Opaque("time")))
            return Opaque("time")
        if not (isinstance(a, Int) and isinstance(b, Int)):
            # a pointer derived from a live reference is never null
            for p_, q_ in ((a, b), (b, a)):
                if isinstance(p_, Opaque) and p_.tag == "ptr-as-int" and isinstance(q_, Int) and bv.to_int(q_.bits) == 0 and op in ("Eq", "Ne"):
                    return bool_int(0 if op == "Eq" else 1)
            ab = self.as_bits(a, ta)
            bb = self.as_bits(b, tb)
            if ab is not None and bb is not None and op in ("Eq", "Ne"):
                e = bv.eq(ab, bb)
                return bool_int(e if op == "Eq" else bv.M.NOT(e))
            if op in ("AddWithOverflow", "SubWithOverflow", "MulWithOverflow"):
                return Agg((Opaque("arith"), Opaque("arith")))
            return Opaque("binop:" + op)
        x, y = a.bits, b.bits
        ii = self.int_info(ta)
        signed = ii[1] if ii else False
        w = len(x)
        Mx = bv.M
        if op in ("Add", "AddUnchecked"):
            return Int(bv.add(x, y))
        if op in ("Sub", "SubUnchecked"):
            return Int(bv.sub(x, y))
        if op in ("Mul", "MulUnchecked"):
            return Int(bv.umul_wide(x, y))
        if op == "AddWithOverflow":
            s, c = bv.add_c(x, y)
            if signed:
                ov = Mx.AND(Mx.NOT(Mx.XOR(x[-1], y[-1])), Mx.XOR(x[-1], s[-1]))
            else:
                ov = c[-1]
            return Agg((Int(s), bool_int(ov)))
        if op == "SubWithOverflow":
            s, br = bv.sub_c(x, y)
            if signed:
                ov = Mx.AND(Mx.XOR(x[-1], y[-1]), Mx.XOR(x[-1], s[-1]))
            else:
                ov = br[-1]
            return Agg((Int(s), bool_int(ov)))
        if op == "MulWithOverflow":
            if signed:
                return Agg((Int(bv.umul_wide(x, y)), bool_int(self.fresh_bool(st, "mulov"))))
            wide = bv.umul_wide(bv.zext(x, 2 * w), bv.zext(y, 2 * w))
            ov = Mx.NOT(bv.is_zero(wide[w:]))
            return Agg((Int(wide[:w]), bool_int(ov)))
        if op == "BitAnd":
            return Int(bv.AND(x, y))
        if op == "BitOr":
            return Int(bv.OR(x, y))
        if op == "BitXor":
            return Int(bv.XOR(x, y))
        if op in ("Shl", "ShlUnchecked"):
            return Int(bv.shl(x, y))
        if op in ("Shr", "ShrUnchecked"):
            return Int(bv.ashr(x, y) if signed else bv.lshr(x, y))
        if op == "Eq":
            return bool_int(bv.eq(x, y))
        if op == "Ne":
            return bool_int(Mx.NOT(bv.eq(x, y)))
        if op == "Lt":
            return bool_int(bv.slt(x, y) if signed else bv.ult(x, y))
        if op == "Le":
            return bool_int(bv.sle(x, y) if signed else bv.ule(x, y))
        if op == "Gt":
            return bool_int(bv.slt(y, x) if signed else bv.ult(y, x))
        if op == "Ge":
            return bool_int(bv.sle(y, x) if signed else bv.ule(y, x))
        if op == "Div":
            if signed:
                return Int(bv.uf("sdiv", w, x, y))
            return Int(bv.udiv(x, y))
        if op == "Rem":
            if signed:
                return Int(bv.uf("srem", w, x, y))
            return Int(bv.urem(x, y))
        return Opaque("binop:" + op)

    def fresh_bool(self, st, name):
        i = st.count("ctl")
        return bv.ctl_var("%s%d" % (name, i), i)

    # ------------------------------------------------------------ execution
    def new_frame(self, st, body, args, dest, ret_bb):
        self.fid_counter += 1
        fid = self.fid_counter
        fr = Frame(body, fid, 0, dest, ret_bb)
        argc = body["argc"]
        if len(args) != argc:
            # rust-call ABI: last argument is a tuple to be spread
            if len(args) >= 1 and isinstance(args[-1], Agg) and len(args) - 1 + len(args[-1].fields) == argc:
                args = list(args[:-1]) + list(args[-1].fields)
            else:
                raise InterpError("arg count mismatch calling %s: %d vs %d" % (body["key"], len(args), argc))
        for i, a in enumerate(args):
            st.mem[("f", fid, i + 1)] = a
        st.frames.append(fr)
        Interp.VISITED.add(body["key"])
        return fr

    def pop_frame(self, st):
        fr = st.frames.pop()
        ret = st.mem.get(("f", fr.fid, 0), UNIT)
        fid = fr.fid
        for k in [k for k in st.mem if k[0] == "f" and k[1] == fid]:
            del st.mem[k]
        return fr, ret

    # ---------------------------------------------------- post-dominators
    def ipdom(self, body):
        """immediate post-dominator per block (None = only the virtual exit)"""
        c = self._ipdom_cache.get(body["key"])
        if c is not None:
            return c
        blocks = body["blocks"]
        n = len(blocks)
        EXIT = n
        succ = [[] for _ in range(n + 1)]
        for i, b in enumerate(blocks):
            if b["cleanup"]:
                continue
            t = b["term"]
            k = t["k"]
            if k == "goto" or k == "drop" or k == "assert":
                succ[i] = [t["target"]]
            elif k == "switch":
                succ[i] = sorted(set([bb for _, bb in t["targets"]] + [t["otherwise"]]))
            elif k == "call":
                succ[i] = [t["target"]] if t["target"] is not None else [EXIT]
            else:
                succ[i] = [EXIT]
        # iterative post-dominator sets as bitmasks
        full = (1 << (n + 1)) - 1
        pd = [full] * (n + 1)
        pd[EXIT] = 1 << EXIT
        changed = True
        order = list(range(n - 1, -1, -1))
        while changed:
            changed = False
            for i in order:
                if not succ[i]:
                    continue
                m = full
                for s_ in succ[i]:
                    m &= pd[s_]
                m |= 1 << i
                if m != pd[i]:
                    pd[i] = m
                    changed = True
        res = [None] * n
        for i in range(n):
            if not succ[i]:
                continue
            cand = pd[i] & ~(1 << i)
            # the immediate one is the candidate post-dominated by no other candidate... i.e. whose pd set == cand
            best = None
            c2 = cand
            j = 0
            while c2:
                if c2 & 1:
                    if pd[j] == cand:
                        best = j
                        break
                c2 >>= 1
                j += 1
            res[i] = None if best is None or best == EXIT else best
        self._ipdom_cache[body["key"]] = res
        return res

    # ---------------------------------------------------- merging
    class NoMerge(Exception):
        pass

    def merge_val(self, sel, a, b):
        if a is b:
            return a
        ta, tb = type(a), type(b)
        if ta is Int and tb is Int:
            if a.bits == b.bits:
                return a
            if len(a.bits) != len(b.bits):
                raise Interp.NoMerge()
            return Int(bv.ite(sel, a.bits, b.bits))
        if ta is Agg and tb is Agg:
            if len(a.fields) != len(b.fields):
                raise Interp.NoMerge()
            return Agg([self.merge_val(sel, x, y) for x, y in zip(a.fields, b.fields)], a.tag)
        if ta is Enum and tb is Enum:
            if a.variant != b.variant or len(a.fields) != len(b.fields):
                raise Interp.NoMerge()
            return Enum(a.variant, [self.merge_val(sel, x, y) for x, y in zip(a.fields, b.fields)])
        if ta is SymEnum and tb is SymEnum:
            return a if a.bits == b.bits else SymEnum(bv.ite(sel, a.bits, b.bits))
        if ta is SymArr and tb is SymArr:
            if a.name != b.name or len(a.writes) != len(b.writes):
                raise Interp.NoMerge()
            ws = []
            for (ia, va), (ib, vb) in zip(a.writes, b.writes):
                if ia != ib:
                    raise Interp.NoMerge()
                ws.append((ia, va if va == vb else bv.ite(sel, va, vb)))
            return SymArr(a.name, a.n, a.width, ws)
        if ta is Ref and tb is Ref:
            if a.root == b.root and len(a.path) == len(b.path) and all((x is y) or (not isinstance(x, SymIdx) and not isinstance(y, SymIdx) and x == y) or (isinstance(x, SymIdx) and isinstance(y, SymIdx) and x.bits == y.bits) for x, y in zip(a.path, b.path)):
                return a
            raise Interp.NoMerge()
        if ta is Opaque and tb is Opaque:
            if a.tag == b.tag:
                if a.data != b.data and (a.data is not None or b.data is not None):
                    raise Interp.NoMerge()      # same kind of abstract value, different contents (terms): keep the paths apart
                return a
            if a.tag == "uninit":
                return b
            if b.tag == "uninit":
                return a
            return Opaque("merged")
        if ta is Opaque and a.tag == "uninit":
            return b
        if tb is Opaque and b.tag == "uninit":
            return a
        raise Interp.NoMerge()

    def merge_eff(self, sel, ea, eb):
        if ea is eb:
            return ea
        if len(ea) != len(eb):
            raise Interp.NoMerge()
        out = []
        for x, y in zip(ea, eb):
            if x is y:
                out.append(x)
                continue
            if len(x) != len(y) or x[0] != y[0]:
                raise Interp.NoMerge()
            parts = [x[0]]
            for p, q in zip(x[1:], y[1:]):
                if p == q:
                    parts.append(p)
                elif isinstance(p, tuple) and isinstance(q, tuple) and len(p) == len(q) and all(isinstance(z, int) for z in p) and all(isinstance(z, int) for z in q):
                    parts.append(bv.ite(sel, p, q))
                else:
                    raise Interp.NoMerge()
            out.append(tuple(parts))
        return tuple(out)

    def try_merge(self, a, b):
        """merge state b into a copy of a; raises NoMerge"""
        if a.tags != b.tags or a.ctr != b.ctr or len(a.frames) != len(b.frames):
            raise Interp.NoMerge()
        for fa, fb in zip(a.frames, b.frames):
            if fa.fid != fb.fid or fa.bb != fb.bb:
                raise Interp.NoMerge()
        Mx = bv.M
        pcm = Mx.OR(a.pc, b.pc)
        sel = Mx.restrict_care(a.pc, pcm)
        mem = {}
        for k, va in a.mem.items():
            vb = b.mem.get(k)
            if vb is None:
                mem[k] = va
            else:
                mem[k] = self.merge_val(sel, va, vb)
        for k, vb in b.mem.items():
            if k not in a.mem:
                mem[k] = vb
        eff = self.merge_eff(sel, a.eff, b.eff)
        m = State()
        m.frames = [f.copy() for f in a.frames]
        m.mem = mem
        m.pc = pcm
        m.eff = eff
        m.ctr = dict(a.ctr)
        m.tags = a.tags
        m.steps = max(a.steps, b.steps)
        self.stats["merges"] = self.stats.get("merges", 0) + 1
        return m

    def merge_states(self, states):
        if len(states) <= 1 or not self.merging:
            return states
        groups = []
        for s in states:
            placed = False
            for i, g in enumerate(groups):
                try:
                    groups[i] = self.try_merge(g, s)
                    placed = True
                    break
                except Interp.NoMerge:
                    continue
            if not placed:
                groups.append(s)
        return groups

    # ---------------------------------------------------- execution
    def run_all(self, body_key, args, init_mem, pc=1, ctr=None):
        """Analyse one root; returns list of Outcome."""
        st = State()
        st.mem = dict(init_mem)
        st.pc = pc
        if ctr:
            st.ctr = dict(ctr)
        body = self.f.bodies[body_key]
        self.outcomes = []
        self.new_frame(st, body, args, None, None)
        self.run_region(st, 1, None)
        outs = self.outcomes
        self.outcomes = []
        self.stats["paths"] = len(outs)
        return outs

    def run_from(self, body_key, start_bb, locals_, init_mem, stop_bb=None, pc=1, ctr=None):
        """Analyse a region of one body: start at block start_bb with the given locals
        ({index: value}); a trace that (re-)enters stop_bb ends with outcome 'stop'."""
        st = State()
        st.mem = dict(init_mem)
        st.pc = pc
        if ctr:
            st.ctr = dict(ctr)
        body = self.f.bodies[body_key]
        self.outcomes = []
        self.fid_counter += 1
        fid = self.fid_counter
        fr = Frame(body, fid, start_bb, None, None)
        for i, v in locals_.items():
            st.mem[("f", fid, i)] = v
        st.frames.append(fr)
        self._region_first = (stop_bb is not None and start_bb == stop_bb)
        for s2 in self.run_region(st, 1, stop_bb):
            self.emit(Outcome("stop", s2, None, {"bb": stop_bb}))
        outs = self.outcomes
        self.outcomes = []
        self.stats["paths"] = len(outs)
        return outs

    def emit(self, out):
        self.outcomes.append(out)
        if len(self.outcomes) > self.max_paths:
            raise InterpError("path limit exceeded")

    def split_on(self, st, bits, nvals):
        """partition the trace on the value of a small bit-vector"""
        Mx = bv.M
        res = []
        w = len(bits)
        for v in range(nvals):
            c = bv.eq(bits, bv.const(v, w))
            npc = Mx.AND(st.pc, c)
            if npc != 0:
                s2 = st.fork()
                s2.pc = npc
                res.append(s2)
        self.stats["splits"] = self.stats.get("splits", 0) + 1
        return res

    def run_region(self, st, depth, stop_bb):
        """Run st until the frame at `depth` reaches block stop_bb (not executed) and
        return the list of states that got there.  With stop_bb None the region is the
        whole activation: terminal outcomes are emitted and [] is returned."""
        Mx = bv.M
        while True:
            st.steps += 1
            if st.steps > self.max_steps:
                self.emit(Outcome("limit", st, None, "step limit"))
                return []
            fr = st.frames[-1]
            if stop_bb is not None and len(st.frames) == depth and fr.bb == stop_bb:
                if self._region_first:
                    self._region_first = False   # the region starts at its own stop block
                else:
                    return [st]
            blk = fr.body["blocks"][fr.bb]
            if self.block_hooks:
                hk = self.block_hooks.get((fr.body["key"], fr.bb))
                if hk is not None and (len(st.frames) == 1 or self.hooks_any_depth):
                    n = st.count(("visit", fr.bb) if len(st.frames) == 1 else ("visit", fr.fid, fr.bb))
                    act = hk(self, st, fr, n)
                    if act == "stop":
                        self.emit(Outcome("stop", st, None, {"bb": fr.bb, "visit": n}))
                        return []
            try:
                for s in blk["st"]:
                    if s["k"] == "assign":
                        p = s["p"]
                        v = self.rvalue(st, fr, s["r"], p["ty"])
                        if self.debug_nonint is not None and not isinstance(v, Int) and self.types[p["ty"]]["k"] == "int":
                            self.debug_nonint.append((fr.body["key"].split("::")[-1], s["ln"], s["r"]["k"], s["r"].get("op"), repr(v)[:50]))
                        root, path = self.loc_of(st, fr, p)
                        self.write_loc(st, root, path, v)
                        self.stats["stmts"] += 1
                t = blk["term"]
                k = t["k"]
                if k == "goto" or k == "drop":
                    fr.bb = t["target"]
                    continue
                if k == "return":
                    fr, ret = self.pop_frame(st)
                    if not st.frames:
                        self.emit(Outcome("return", st, ret))
                        return []
                    caller = st.frames[-1]
                    if fr.transform is not None:
                        ret = fr.transform(st, ret)
                        if isinstance(ret, list):
                            # the model that called back into the crate post-processes the result into several outcomes
                            if len(st.frames) < depth:
                                raise InterpError("region escaped by return in %s" % fr.body["key"])
                            conts = self._dispatch_outcomes(st, ret, fr.dest, fr.ret_bb, caller, {"ln": None})
                            out = []
                            for s2 in conts:
                                out.extend(self.run_region(s2, depth, stop_bb))
                            return out
                    if fr.dest is not None:
                        self.write_loc(st, fr.dest[0], fr.dest[1], ret)
                    if fr.ret_bb is None:
                        self.emit(Outcome("diverge", st, None, "return to call without target"))
                        return []
                    caller.bb = fr.ret_bb
                    if len(st.frames) < depth:
                        raise InterpError("region escaped by return in %s" % fr.body["key"])
                    continue
                if k == "switch":
                    v = self.operand(st, fr, t["o"])
                    tid = self.operand_ty(t["o"])
                    bits = self.as_bits(v, tid)
                    if bits is None:
                        st.tag("time-branch" if is_tainted(v) else ("host-branch" if isinstance(v, Opaque) and v.tag == "host" else "opaque-switch"))
                        targets = sorted(set([bb for _, bb in t["targets"]] + [t["otherwise"]]))
                        feas = [(bb, st.pc) for bb in targets]
                    else:
                        w = len(bits)
                        by_bb = {}
                        covered = 0
                        for val, bb in t["targets"]:
                            c = bv.eq(bits, bv.const(int(val), w))
                            if c == 0:
                                continue
                            covered = Mx.OR(covered, c)
                            by_bb[bb] = Mx.OR(by_bb.get(bb, 0), c)
                        oth = Mx.NOT(covered)
                        by_bb[t["otherwise"]] = Mx.OR(by_bb.get(t["otherwise"], 0), oth)
                        feas = []
                        for bb, c in by_bb.items():
                            npc = Mx.AND(st.pc, c)
                            if npc != 0:
                                feas.append((bb, npc))
                    if not feas:
                        return []
                    if len(feas) == 1:
                        fr.bb = feas[0][0]
                        st.pc = feas[0][1]
                        continue
                    self.stats["forks"] += len(feas) - 1
                    cur_depth = len(st.frames)
                    j = self.ipdom(fr.body)[fr.bb] if self.merging else None
                    if j is not None and bits is not None and self.no_merge_ranks:
                        sup = set()
                        for b_ in bits:
                            Mx.support(b_, sup, set())
                        if sup and all(r in self.no_merge_ranks for r in sup):
                            j = None   # decode decision: keep the traces apart
                    arms = []
                    for bb, npc in feas:
                        s2 = st.fork()
                        s2.pc = npc
                        s2.frames[-1].bb = bb
                        arms.append(s2)
                    if j is None:
                        out = []
                        for s2 in arms:
                            out.extend(self.run_region(s2, depth, stop_bb))
                        return out
                    arrived = []
                    for s2 in arms:
                        arrived.extend(self.run_region(s2, cur_depth, j))
                    merged = self.merge_states(arrived)
                    out = []
                    for m in merged:
                        out.extend(self.run_region(m, depth, stop_bb))
                    return out
                if k == "assert":
                    v = self.operand(st, fr, t["cond"])
                    if isinstance(v, Int):
                        c = v.bits[0]
                        ok = c if t["expected"] else Mx.NOT(c)
                    elif t["msg"]["kind"] in ("NullPointerDereference", "MisalignedPointerDereference"):
                        ok = 1   # debug-build checks on pointers derived from references to live objects
                    else:
                        st.tag("time-assert" if is_tainted(v) else "opaque-assert")
                        ok = self.fresh_bool(st, "assert")
                    pfail = Mx.AND(st.pc, Mx.NOT(ok))
                    pok = Mx.AND(st.pc, ok)
                    if pfail != 0:
                        s2 = st.fork() if pok != 0 else st
                        s2.pc = pfail
                        info = {"kind": "assert:" + t["msg"]["kind"], "op": t["msg"].get("op"), "fn": fr.body["key"], "line": t["ln"],
                                "stack": [f.body["key"] for f in s2.frames]}
                        self.emit(Outcome("panic", s2, None, info))
                    if pok == 0:
                        return []
                    st.pc = pok
                    fr.bb = t["target"]
                    continue
                if k == "call":
                    conts = self.call(st, fr, t)
                    if len(conts) == 1 and conts[0] is st:
                        continue
                    out = []
                    for s2 in conts:
                        out.extend(self.run_region(s2, depth, stop_bb))
                    return out
                if k == "unreachable":
                    self.emit(Outcome("unreachable", st, None, {"fn": fr.body["key"], "line": t["ln"]}))
                    return []
                self.emit(Outcome("abort", st, None, {"fn": fr.body["key"], "term": k}))
                return []
            except SplitRequest as sr:
                parts = self.split_on(st, sr.bits, sr.nvals)
                out = []
                for s2 in parts:
                    out.extend(self.run_region(s2, depth, stop_bb))
                return out

    # ------------------------------------------------------------ calls
    def call(self, st, fr, t):
        """returns the list of continuation states (st itself when execution simply goes on)"""
        self.stats["calls"] += 1
        cal = t["callee"]
        path = cal["path"]
        args = [self.operand(st, fr, a) for a in t["args"]]
        dest = self.loc_of(st, fr, t["dest"])
        target = t["target"]

        # closures called through Fn* traits
        if path is not None and cal.get("self_closure") and cal["self_closure"] in self.f.bodies and path not in self.f.bodies:
            path = cal["self_closure"]
            if cal["ikind"] == "closure_once_shim" or (cal.get("decl") or "").endswith("::call_once"):
                body = self.f.bodies[path]
                envt = self.types[body["locals"][1]["ty"]]
                if envt["k"] == "ref":
                    tmp = ("tmpenv", st.count("tmpenv"))
                    st.mem[tmp] = args[0]
                    args[0] = Ref(tmp, ())
        # a call through a function pointer (`let h: fn(..) = match x { .. => Cpu::a, .. }; h(..)`): the pointer's value decides the callee
        if path is None and cal.get("ikind") == "indirect" and t.get("func") is not None:
            fv = self.operand(st, fr, t["func"])
            d_ = 3
            while isinstance(fv, Ref) and d_ > 0:
                fv = self.read_loc(st, fv.root, fv.path)
                d_ -= 1
            if isinstance(fv, Opaque) and fv.tag == "fn":
                cand = fv.data if fv.data in self.f.bodies else self.fn_full.get(fv.data)
                if cand in self.f.bodies:
                    path = cand
                    cal = dict(cal)
                    cal["resolved"] = True
                    cal["path"] = cand
                    t = dict(t)
                    t["callee"] = cal
        prim = self.primitives.get(path)
        if prim is not None:
            return self._dispatch_outcomes(st, prim(self, st, fr, t, args), dest, target, fr, t)
        if path in self.f.bodies and (cal["resolved"] or cal.get("self_closure")):
            if len(st.frames) > self.max_depth:
                raise InterpError("call depth exceeded at %s" % path)
            self.new_frame(st, self.f.bodies[path], args, dest, target)
            return [st]
        model = self.models.get(path)
        if model is None and cal.get("decl"):
            model = self.models.get(cal["decl"])
        r_ = model(self, st, fr, t, args) if model is not None else None
        if r_ is None:
            # pattern models in order; a model may decline (None), then the next matching one is asked
            full_ = cal.get("full") or ""
            path_ = cal.get("path") or ""
            for pred_, m_ in (getattr(self, "pattern_models", None) or ()):
                if m_ is model or not pred_(path_, full_):
                    continue
                r_ = m_(self, st, fr, t, args)
                if r_ is not None:
                    break
        if r_ is not None:      # a model may decline (None): the callee is then unknown
            if isinstance(r_, tuple) and len(r_) == 4 and r_[0] == "tailcall":
                # the model continues in a body of the crate; its result is post-processed
                _, bkey, bargs, transform = r_
                self.new_frame(st, self.f.bodies[bkey], bargs, dest, target)
                st.frames[-1].transform = transform
                return [st]
            if isinstance(r_, Opaque) and r_.tag != "time" and any(is_tainted(a) or (isinstance(a, Ref) and a.root[0] == "f" and is_tainted(st.mem.get(a.root))) for a in args):
                r_ = Opaque("time")
            return self._dispatch_outcomes(st, r_, dest, target, fr, t)
        # unknown callee: opaque result
        key = cal.get("full") or path or "<indirect>"
        rt = self.types[t["dest"]["ty"]]
        if rt["k"] != "never":
            self.unknown_callees[key] = self.unknown_callees.get(key, 0) + 1
        if self.typed_unknown is not None:
            r_ = self.typed_unknown(self, st, fr, t, args, key)
            if r_ is not None:
                return self._dispatch_outcomes(st, r_, dest, target, fr, t)
        if rt["k"] != "never":
            st.tag("unknown-callee")      # (a call that never returns is followed exactly: the trace ends in a panic)
        if rt["k"] == "never":
            # a call that never returns (panic!, unreachable!, process::exit ...)
            self.emit(Outcome("panic", st, None, {"kind": "diverging-call", "op": key.split("::")[-1], "fn": fr.body["key"], "callee": key, "line": t["ln"],
                                                   "stack": [f.body["key"] for f in st.frames]}))
            return []
        if rt["k"] == "adt" and rt.get("adt") == "enum" and "variants" in rt and len(rt["variants"]) > 1:
            outs = [(None, Enum(i, [Opaque("unk:" + key) for _ in vv["fields"]])) for i, vv in enumerate(rt["variants"])]
            return self._dispatch_outcomes(st, outs, dest, target, fr, t)
        return self._dispatch_outcomes(st, self.opaque_of_type(t["dest"]["ty"], "ret:" + key), dest, target, fr, t)

    def opaque_of_type(self, tid, tag):
        t = self.types[tid]
        if t["k"] == "tuple" and not t["of"]:
            return UNIT
        return Opaque(tag)

    def find_pattern_model(self, cal):
        pm = getattr(self, "pattern_models", None)
        if not pm:
            return None
        full = cal.get("full") or ""
        path = cal.get("path") or ""
        for pred, m in pm:
            if pred(path, full):
                return m
        return None

    def _dispatch_outcomes(self, st, outs, dest, target, fr, t):
        """outs: list of (cond or None, value[, hook]) | ('panic', cond, info) | a single value.
        cond None = same path condition (non-deterministic alternative)."""
        if not isinstance(outs, list):
            outs = [(None, outs)]
        Mx = bv.M
        live = []
        calls = []
        for o in outs:
            if o[0] == "panic":
                _, c, info = o
                npc = st.pc if c is None else Mx.AND(st.pc, c)
                if npc != 0:
                    s2 = st.fork()
                    s2.pc = npc
                    inf = dict(info)
                    inf.setdefault("fn", fr.body["key"])
                    inf.setdefault("line", t["ln"])
                    inf["stack"] = [f.body["key"] for f in s2.frames]
                    self.emit(Outcome("panic", s2, None, inf))
                continue
            if o[0] == "stop":
                # ("stop", cond, hook): the trace ends here (a virtual loop back-edge produced by a model)
                _, c, hook_ = o
                npc = st.pc if c is None else Mx.AND(st.pc, c)
                if npc != 0:
                    s2 = st.fork()
                    s2.pc = npc
                    if hook_:
                        hook_(s2)
                    self.emit(Outcome("stop", s2, None, {"bb": None, "visit": None, "virtual": True}))
                continue
            if o[0] == "call":
                # ("call", cond, body key, args, transform, hook): continue in a body of the crate on this alternative
                _, c, bkey, bargs, transform_, hook_ = o
                npc = st.pc if c is None else Mx.AND(st.pc, c)
                if npc != 0:
                    calls.append((npc, bkey, bargs, transform_, hook_))
                continue
            c, val = o[0], o[1]
            extra = o[2] if len(o) > 2 else None
            npc = st.pc if c is None else Mx.AND(st.pc, c)
            if npc != 0:
                live.append((npc, val, extra))
        call_conts = []
        for (npc, bkey, bargs, transform_, hook_) in calls:
            s2 = st.fork()
            s2.pc = npc
            if hook_:
                hook_(s2)
            self.new_frame(s2, self.f.bodies[bkey], bargs, dest, target)
            s2.frames[-1].transform = transform_
            call_conts.append(s2)
        if not live:
            return call_conts
        self.stats["forks"] += len(live) - 1
        states = [st] + [st.fork() for _ in live[1:]]
        conts = call_conts
        for s, (npc, val, extra) in zip(states, live):
            s.pc = npc
            if extra:
                extra(s)
            self.write_loc(s, dest[0], dest[1], val)
            if target is None:
                self.emit(Outcome("diverge", s, None, {"fn": fr.body["key"], "line": t["ln"]}))
                continue
            s.frames[-1].bb = target
            conts.append(s)
        return conts
