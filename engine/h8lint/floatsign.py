"""Sign analysis of floating-point values along MIR def-use chains (no execution).

nonneg(operand) holds when every definition reaching the operand is built from: casts of
unsigned integers, non-negative constants, + * / of non-negative values (divisor a non-zero
constant), abs / as_secs_f64 / sqrt results.  Anything else (subtraction, signed sources,
unknown calls) is "unknown".  Used for the argument of Duration::from_secs_f64, which panics
on a negative or non-finite value."""
NONNEG_CALLS = ("::as_secs_f64", "::as_secs_f32", "::abs", "::sqrt", "::elapsed")
TIME_SOURCES = ("Instant::elapsed", "Instant::now", "SystemTime", "as_secs_f64", "duration_since")


def analyse(facts, body, g, operand, depth=16):
    """returns (nonneg: bool, why: str, host_time: bool)"""
    defs = g.defs()
    host = [False]

    def is_unsigned(tid):
        t = facts.types[tid]
        return t["k"] in ("bool", "char") or (t["k"] == "int" and not t["signed"])

    def const_ok(o, nonzero=False):
        v = o.get("v") or {}
        if "int" in v:
            iv = int(v["int"])
            return iv >= 0 and (iv != 0 or not nonzero)
        if "float" in v:
            try:
                fv = float(v["float"])
            except Exception:
                return False
            return fv >= 0 and fv == fv and fv != float("inf") and (fv != 0 or not nonzero)
        return False

    def op_ok(o, dep, nonzero=False):
        if o["k"] == "const":
            return const_ok(o, nonzero), "constant"
        if o["k"] not in ("copy", "move") or o["p"]["p"]:
            return False, "a projected place"
        return loc_ok(o["p"]["l"], dep, nonzero)

    def loc_ok(l, dep, nonzero=False):
        if dep <= 0:
            return False, "definition chain too long"
        ds = defs.get(l)
        if not ds:
            return False, "an argument / undefined local"
        for blk, kd, payload in ds:
            if kd == "st":
                r = payload["r"]
                k = r["k"]
                if k == "use":
                    okk, why = op_ok(r["o"], dep - 1, nonzero)
                elif k == "cast":
                    src = r["o"]
                    sty = src.get("ty") if src["k"] == "const" else src["p"].get("ty")
                    if r.get("ck") == "IntToFloat" and sty is not None and is_unsigned(sty):
                        if nonzero:
                            okk, why = (src["k"] == "const" and const_ok(src, True)), "a divisor that is not a non-zero constant"
                        else:
                            okk, why = True, ""
                    elif r.get("ck") in ("FloatToFloat",):
                        okk, why = op_ok(src, dep - 1, nonzero)
                    else:
                        okk, why = False, "a cast from a signed or non-integer source"
                elif k == "bin":
                    op = r["op"]
                    if nonzero:
                        okk, why = False, "a computed divisor"
                    elif op in ("Add", "Mul"):
                        a, wa = op_ok(r["a"], dep - 1)
                        b, wb = op_ok(r["b"], dep - 1)
                        okk, why = a and b, wa or wb
                    elif op == "Div":
                        a, wa = op_ok(r["a"], dep - 1)
                        b, wb = op_ok(r["b"], dep - 1, True)
                        okk, why = a and b, wa or wb
                    elif op == "Sub":
                        # note the time sources on both sides for the report
                        op_ok(r["a"], dep - 1)
                        op_ok(r["b"], dep - 1)
                        okk, why = False, "a subtraction (the difference can be negative)"
                    else:
                        okk, why = False, "operator %s" % op
                else:
                    okk, why = False, "rvalue %s" % k
            elif kd == "call":
                t = payload
                p = t["callee"]["path"] or ""
                if any(s in p for s in TIME_SOURCES):
                    host[0] = True
                for a in t["args"]:
                    if a["k"] in ("copy", "move") and not a["p"]["p"]:
                        for r_ in g.roots(a):
                            if r_[0] == "call" and any(s in r_[1] for s in TIME_SOURCES):
                                host[0] = True
                okk = any(p.endswith(s) for s in NONNEG_CALLS) and not nonzero
                why = "" if okk else "the result of %s" % p.split("::")[-1]
            else:
                okk, why = False, "definition kind %s" % kd
            if not okk:
                return False, why
        return True, ""
    okk, why = op_ok(operand, depth)
    return okk, why, host[0]
