"""Abstract interpretation of elf::load (shared by C11 and C12).

The file image, vectors, iterators and slices are abstract terms; parser results and
iterator elements are the most general values of their types (symgen); the Bus is the
symbolic bus model.  Every natural loop is generalised at its header (locals assigned in
the loop and the DRAM contents become fresh symbolic values) and cut when the header is
reached again, so each analysed iteration stands for every iteration."""
import bv
import cfg as cfgmod
import isa as isamod
import models
import strmodel
import symgen
from busmodel import BusModel, BUS_ROOT
from interp import Agg, Enum, Int, Interp, Opaque, Ref, SymArr, UNIT, unwrap_ref
from rules import c13


class Table:
    """provenance of a vector produced by count(entry parser, n).parse(slice): the n consecutive
    records of the file that start at the slice"""

    def __init__(self, entry, n, src):
        self.entry = entry    # name of the element parser
        self.n = n            # bits of the count (or None)
        self.src = src        # slice descriptor of the input (base, start, end, inclusive) or None

    def __repr__(self):
        return "Table(%s)" % self.entry.split("::")[-1]

    def _key(self):
        return (self.entry, self.n, self.src)

    def __eq__(self, other):
        return isinstance(other, Table) and self._key() == other._key()

    def __hash__(self):
        return hash(self._key())


LOSSY_ADAPTORS = ("skip", "take", "step_by", "skip_while", "take_while", "filter_map", "nth", "last", "chain", "zip", "flat_map", "dedup", "truncate", "retain", "pop", "remove", "drain", "split_off", "clear")


BUILT = {}     # id of a vector built by pushing in a loop -> provenance of the collection the loop runs over (or None)


def chain_of(prov):
    """flatten a provenance term: (list of adaptor names from the outside in, root)"""
    ops = []
    for _ in range(24):
        if isinstance(prov, tuple) and len(prov) == 4 and prov[1] is None and prov[2] is None and not isinstance(prov[0], str):
            prov = prov[0]          # the whole slice of a vector
            continue
        if isinstance(prov, tuple) and len(prov) == 2 and prov[0] == "built":
            # a vector filled by exactly one push per element of another collection: as complete as that collection
            src = BUILT.get(prov[1])
            if src is None:
                break
            ops += ["collect", "map"]
            prov = src
            continue
        if isinstance(prov, tuple) and len(prov) >= 2 and isinstance(prov[0], str) and (prov[0] in ("map", "collect", "iter", "rev", "filter") or prov[0].startswith("lossy:")):
            ops.append(prov[0])
            prov = prov[1]
            continue
        break
    if isinstance(prov, tuple) and len(prov) == 4 and prov[1] is None and prov[2] is None:
        prov = prov[0]    # the whole slice of a vector
    return ops, prov


def check_table(res, prov, entry, exp_n, exp_off, care, key, what, differs, witness):
    """the collection an analysed loop draws from must be the complete table of the file:
    count(<entry>, n).parse(file[off..]) seen through element-preserving adaptors only"""
    ops, root = chain_of(prov)
    lossy = [o for o in ops if o.startswith("lossy:")]
    res.ob(not lossy)
    if lossy:
        res.finding("%s|incomplete-iteration" % key, "%s: the loop does not visit every entry (%s applied to the table)" % (what, ", ".join(o[6:] + "()" for o in lossy)), witness(care))
        return False
    if not isinstance(root, Table):
        res.errors.append("%s: cannot establish which collection the loop iterates (provenance %r)" % (what, prov))
        return False
    okk = (root.entry or "").endswith(entry)
    res.ob(okk)
    if not okk:
        res.finding("%s|table-kind" % key, "%s: the loop iterates records parsed by %s, expected %s" % (what, root.entry, entry), witness(care))
        return False
    d = differs(root.n, exp_n, care)
    res.ob(d == 0)
    if d != 0:
        res.finding("%s|table-count" % key, "%s: the number of records parsed is not the one the file declares" % what, witness(d))
    src = root.src
    okk = src is not None and src[0] == "file" and src[2] is None
    res.ob(okk)
    if not okk:
        res.finding("%s|table-source" % key, "%s: the records are not parsed from the file image at the declared offset (%r)" % (what, src and src[0]), witness(care))
        return False
    d2 = differs(src[1], exp_off, care)
    res.ob(d2 == 0)
    if d2 != 0:
        res.finding("%s|table-offset" % key, "%s: the table is not parsed at the file offset the header declares" % what, witness(d2))
    return d == 0 and d2 == 0


def filtered_out(outs):
    """elements dropped by an iterator filter: (path condition, element value, header of the loop that draws from the filter)"""
    for o in outs:
        if o.kind == "panic" and isinstance(o.info, dict) and o.info.get("kind") == "filtered-out":
            heads = [e for e in o.info.get("eff", ()) if e[0] == "loop-head"]
            yield o.state.pc, o.info["elem"], (heads[-1][1] if heads else None)


def slice_desc(v):
    return v.data if isinstance(v, Opaque) and v.tag == "slice" else None


def bits_of(v):
    return v.bits if isinstance(v, Int) else None


class Loader:
    def __init__(self, facts):
        self.f = facts
        bv.reset()
        strmodel.reset()
        symgen.reset()
        self.I = isamod.Isa(facts)
        self.bm = BusModel(facts)
        ms, pats = models.standard_models()
        ip = Interp(facts, primitives={}, models=ms, max_steps=600000)
        ip.pattern_models = pats
        c13.time_models(ip)
        strmodel.install(ip)
        ip.log_arr = True
        self.ip = ip
        self.key = facts.body("elf::load")["key"]
        self.body = facts.bodies[self.key]
        self.g = cfgmod.Cfg(self.body)
        self.loops = self.g.loops()
        self.elem_memo = {}
        self.install()

    # ------------------------------------------------------------------ models
    def install(self):
        ip = self.ip
        types = ip.types

        def vec_name(v):
            return v.data[0] if isinstance(v, Opaque) and v.tag == "vec" else None

        def val(st, v, depth=4):
            while depth > 0 and isinstance(v, Ref):
                v = ip.read_loc(st, v.root, v.path)
                depth -= 1
            return v

        def range_of(idx):
            """Range / RangeFrom / RangeInclusive aggregate -> (start, end, inclusive)"""
            if isinstance(idx, Opaque) and idx.tag == "rangeincl":
                return idx.data[0], idx.data[1], True
            if isinstance(idx, Agg) and len(idx.fields) == 1 and isinstance(idx.fields[0], Int):
                return idx.fields[0].bits, None, False
            if isinstance(idx, Agg) and len(idx.fields) == 2 and all(isinstance(x, Int) for x in idx.fields):
                return idx.fields[0].bits, idx.fields[1].bits, False
            return None

        def m_read_elf(ip_, st, fr, t, args):
            return Opaque("vec", ("file", None))

        def m_vec_deref(ip_, st, fr, t, args):
            v = val(st, args[0])
            if isinstance(v, Opaque) and v.tag == "vec":
                return Opaque("slice", (v.data[0], None, None, False))
            return Opaque("slice", ("?", None, None, False))

        def base_of(st, v):
            """what a slice/vec/array reference designates: name of the store or vector"""
            if isinstance(v, Ref):
                tgt = ip.read_loc(st, v.root, v.path)
                if isinstance(tgt, SymArr):
                    return tgt.name
                v = tgt
            u = unwrap_ref(v) if isinstance(v, Agg) else None
            if u is not None:
                tgt = ip.read_loc(st, u.root, u.path)
                if isinstance(tgt, SymArr):
                    return tgt.name
            if isinstance(v, Opaque) and v.tag == "vec":
                return v.data[0]
            if isinstance(v, Opaque) and v.tag == "slice":
                return v.data
            return None

        def m_index(ip_, st, fr, t, args):
            base = base_of(st, args[0])
            idx = args[1]
            r = range_of(idx)
            if r is not None:
                if isinstance(base, tuple):      # slice of a slice
                    b0, s0, e0, inc0 = base
                    start = r[0] if s0 is None else bv.add(s0, r[0])
                    return Opaque("slice", (b0, start, None if r[1] is None else (r[1] if s0 is None else bv.add(s0, r[1])), r[2]))
                return Opaque("slice", (base, r[0], r[1], r[2]))
            if isinstance(idx, Int):
                # element of a vector: the same (vector, index function) yields the same element
                rt = types[t["dest"]["ty"]]
                key = (base, idx.bits)
                if key in self.elem_memo:
                    root, v0 = self.elem_memo[key]
                    if root not in st.mem:
                        st.mem[root] = v0
                    st.add_eff(("vec-index", base, idx.bits, v0))
                    return Ref(root, ())
                outs = []
                for v, hook in symgen.alternatives(ip_, st, rt["to"], "%s[%d]" % (base, len(self.elem_memo))):
                    root = ("elem", len(self.elem_memo), len(outs))

                    def mk(s, root=root, v=v, hook=hook, base=base, idx=idx):
                        s.mem[root] = v
                        if hook:
                            hook(s)
                        s.add_eff(("vec-index", base, idx.bits, v))
                    outs.append((None, Ref(root, ()), mk))
                if len(outs) == 1:
                    self.elem_memo[key] = (outs[0][1].root, v)
                return outs
            return None

        def m_copy(ip_, st, fr, t, args):
            dst = slice_desc(val(st, args[0]))
            src = args[1]
            sd = slice_desc(val(st, src))
            if sd is None:
                sv = val(st, src)
                if isinstance(sv, Agg) and all(isinstance(x, Int) for x in sv.fields):
                    sd = ("bytes", tuple(x.bits for x in sv.fields))
                else:
                    sd = ("?",)
            st.add_eff(("copy", dst, sd))
            # make small constant-size copies into a store visible to later reads
            if dst is not None and isinstance(dst[0], str) and dst[0] in self.bm.stores and sd[0] == "bytes" and dst[1] is not None:
                for j, b in enumerate(sd[1]):
                    arr = st.mem.get(("h", dst[0]))
                    if not isinstance(arr, SymArr):
                        break
                    nb = max(1, (arr.n - 1).bit_length())
                    idx = bv.add(dst[1], bv.const(j, len(dst[1])))[:nb]
                    narr = SymArr(arr.name, arr.n, arr.width, arr.writes + ((tuple(idx), b),))
                    if ("h", dst[0]) in st.mem:
                        st.mem[("h", dst[0])] = narr
            return UNIT

        def m_len(ip_, st, fr, t, args):
            v = val(st, args[0])
            if isinstance(v, Opaque) and v.tag == "vec":
                return Int(bv.seq_bv("len(%s)" % (v.data[0],), 64))
            return None

        def m_insert(ip_, st, fr, t, args):
            r = args[0]
            v = val(st, r)
            if isinstance(r, Ref) and isinstance(v, Opaque) and v.tag == "vec":
                ip_.write_loc(st, r.root, r.path, Opaque("vec", (("inserted", v.data[0], strmodel.term_of(ip_, st, args[2])), v.data[1])))
                st.add_eff(("insert", v.data[0], bits_of(args[1]), strmodel.term_of(ip_, st, args[2])))
            return UNIT

        def m_iter(ip_, st, fr, t, args):
            v = val(st, args[0])
            if isinstance(args[0], Opaque) and args[0].tag == "iter":
                return args[0]      # an iterator is its own IntoIterator
            name = base_of(st, args[0])
            if isinstance(args[0], Agg) and len(args[0].fields) == 2:
                return args[0]    # a Range is its own iterator
            return Opaque("iter", (name, st.count("iter")))

        def m_lossy(ip_, st, fr, t, args):
            # an adaptor / mutation that may drop, reorder or merge elements: recorded in the provenance
            name = t["callee"]["path"].split("::")[-1]
            it = args[0]
            v = val(st, it)
            src = v.data[0] if isinstance(v, Opaque) and v.tag in ("iter", "vec") else None
            if name == "skip" and isinstance(args[1], Int) and bv.to_int(args[1].bits) == 0:
                return Opaque("iter", (src, st.count("iter")))
            if isinstance(v, Opaque) and v.tag == "vec" and isinstance(it, Ref):
                ip_.write_loc(st, it.root, it.path, Opaque("vec", (("lossy:" + name, src), v.data[1])))
                return typed_unknown(ip_, st, fr, t, args, t["callee"]["path"])
            return Opaque("iter", (("lossy:" + name, src), st.count("iter")))

        def m_nom_count(ip_, st, fr, t, args):
            a0 = t["args"][0]
            entry = a0["v"].get("fn") if a0["k"] == "const" and isinstance(a0.get("v"), dict) else None
            return Opaque("nomcount", (entry, bits_of(args[1])))

        def m_nom_parse(ip_, st, fr, t, args):
            p = val(st, args[0])
            if not (isinstance(p, Opaque) and p.tag == "nomcount" and p.data[0]):
                return None
            tab = Table(p.data[0], p.data[1], slice_desc(val(st, args[1])))
            rt = types[t["dest"]["ty"]]
            outs = []
            for v, hook in symgen.alternatives(ip_, st, t["dest"]["ty"], "%s@%d" % (p.data[0].split("::")[-1][:24], st.count("unk"))):
                if isinstance(v, Enum) and v.variant == models.OK and isinstance(v.fields[0], Agg) and len(v.fields[0].fields) == 2 \
                        and isinstance(v.fields[0].fields[1], Opaque) and v.fields[0].fields[1].tag == "vec":
                    vec = v.fields[0].fields[1]
                    v = Enum(models.OK, [Agg([v.fields[0].fields[0], Opaque("vec", (tab, vec.data[1]))])])

                def mk(s, hook=hook, tab=tab):
                    if hook:
                        hook(s)
                    s.add_eff(("table-parse", tab))
                outs.append((None, v, mk))
            return outs

        def m_parse_header(ip_, st, fr, t, args):
            # the ELF header: most general value of its type (its byte layout is decided by C11's parser-layout rule)
            outs = symgen.outcomes(ip_, st, t["dest"]["ty"], "ehdr")
            for o in outs:
                v = o[1]
                if isinstance(v, Enum) and v.variant == models.OK and isinstance(v.fields[0], Agg):
                    self.ehdr = v.fields[0].fields[1]
            return outs

        def m_map(ip_, st, fr, t, args):
            it = args[0]
            return Opaque("iter", (("map", it.data[0] if isinstance(it, Opaque) and it.tag == "iter" else None), st.count("iter")))

        def m_collect(ip_, st, fr, t, args):
            it = args[0]
            src = it.data[0] if isinstance(it, Opaque) and it.tag == "iter" else (it.data if isinstance(it, Opaque) else None)
            rt = types[t["dest"]["ty"]]
            return Opaque("vec", (("collect", src), rt["args"][0] if rt.get("args") else None))

        def m_next(ip_, st, fr, t, args):
            r = args[0]
            it = val(st, r)
            if isinstance(it, Agg) and len(it.fields) == 2 and all(isinstance(x, Int) for x in it.fields):
                start, end = it.fields
                c = bv.ult(start.bits, end.bits)

                def adv(s, r=r, start=start):
                    ip_.write_loc(s, r.root, r.path + (0,), Int(bv.add(start.bits, bv.const(1, len(start.bits)))))
                    s.add_eff(("range-next", start.bits, end.bits))
                return [(c, Enum(models.SOME, [start]), adv), (bv.M.NOT(c), Enum(models.NONE, []), lambda s: s.add_eff(("range-done", start.bits, end.bits)))]
            name = it.data[0] if isinstance(it, Opaque) and it.tag == "iter" else "?"
            rt = types[t["dest"]["ty"]]
            et = rt["args"][0]
            n = st.count("next")
            outs = [(None, Enum(models.NONE, []), lambda s, name=name: s.add_eff(("iter-done", name)))]
            for v, hook in symgen.alternatives(ip_, st, et, "%s.item%d" % (str(name)[:20], n)):
                def mk(s, hook=hook, name=name, n=n, v=v):
                    if hook:
                        hook(s)
                    ev = v
                    if isinstance(ev, Ref):
                        ev = ip_.read_loc(s, ev.root, ev.path)
                    s.add_eff(("iter-next", name, n, ev))
                outs.append((None, Enum(models.SOME, [v]), mk))
            return outs

        def m_string_eq(ip_, st, fr, t, args):
            a = strmodel.term_of(ip_, st, args[0])
            b = strmodel.term_of(ip_, st, args[1])
            if isinstance(b, str) and a is not None:
                return Int((strmodel.eq_var(a, b),))
            if isinstance(a, str) and b is not None:
                return Int((strmodel.eq_var(b, a),))
            return None

        def m_bytes_test(kind):
            """slice.starts_with(constant bytes) / slice == constant bytes on a slice of the file: a free boolean per (slice, needle),
            recorded with the slice description and the needle so that the rules can judge WHAT is compared"""
            def f(ip_, st, fr, t, args):
                sv_ = val(st, args[0])
                sd = slice_desc(sv_)
                nv = val(st, args[1])
                nd = slice_desc(nv)
                if isinstance(nv, Agg) and nv.fields and all(isinstance(x, Int) and bv.to_int(x.bits) is not None for x in nv.fields):
                    needle = bytes(bv.to_int(x.bits) for x in nv.fields)
                elif nd is not None and isinstance(nd[0], tuple) and nd[0][:1] == ("bytes-of",) and isinstance(nd[0][1], str) and nd[1] is None:
                    needle = nd[0][1].encode("utf-8")       # "text".as_bytes()
                else:
                    return None
                if sd is None:
                    sd = ("value", repr(sv_)[:80])        # some byte slice the loader does not describe further (e.g. a field of a parsed record)
                var = bv.seq_bv("bytes_%s_%d" % (kind, st.count("bt")), 1)[0]
                st.add_eff(("bytes-test", kind, sd, needle, var))
                return Int((var,))
            return f

        def m_rangeincl(ip_, st, fr, t, args):
            return Opaque("rangeincl", (bits_of(args[0]), bits_of(args[1])))

        def m_as_bytes(ip_, st, fr, t, args):
            return Opaque("slice", (("bytes-of", strmodel.term_of(ip_, st, args[0])), None, None, False))

        def m_split_ws(ip_, st, fr, t, args):
            return Opaque("iter", (("split_whitespace", strmodel.term_of(ip_, st, args[0])), st.count("iter")))

        def m_unwrap_or_else(ip_, st, fr, t, args):
            v = args[0]
            if isinstance(v, Enum):
                return v.fields[0] if v.variant == models.OK and v.fields else None
            return None
        def place_elem_type(fr, place, upto):
            """type of the place prefix that ends just before projection `upto`"""
            tid = fr.body["locals"][place["l"]]["ty"]
            for pr in place["p"]:
                if pr is upto:
                    break
                t_ = types[tid]
                if pr["k"] == "deref":
                    tid = t_.get("to", tid)
                elif pr["k"] == "field":
                    tid = pr.get("ty", tid)
                elif pr["k"] in ("index", "cindex"):
                    tid = t_.get("of", tid)
            return tid

        def opaque_index(st, fr, place, pr, basev, iv):
            """`slice[i]` as a place on an abstract slice of a vector: the element is the memoised most general value
            (the same (vector, index function) always designates the same element)"""
            if not (isinstance(basev, Opaque) and basev.tag == "slice"):
                return None
            d = basev.data
            base = d[0] if isinstance(d, tuple) and len(d) == 4 and d[1] is None and d[2] is None else None
            if base is None:
                return None
            st_t = types[place_elem_type(fr, place, pr)]
            et = st_t.get("of")
            if et is None:
                return None
            key = (base, iv.bits)
            if key in self.elem_memo:
                root, v0 = self.elem_memo[key]
                if root not in st.mem:
                    st.mem[root] = v0
                    st.add_eff(("vec-index", base, iv.bits, v0))
                return root, ()
            alts = symgen.alternatives(ip, st, et, "%s[%d]" % (base, len(self.elem_memo)))
            if len(alts) != 1:
                return None
            v, hook = alts[0]
            if hook:
                hook(st)
            root = ("elem", len(self.elem_memo), 0)
            st.mem[root] = v
            self.elem_memo[key] = (root, v)
            st.add_eff(("vec-index", base, iv.bits, v))
            return root, ()
        ip.opaque_index = opaque_index
        def m_vec_new(ip_, st, fr, t, args):
            rt = types[t["dest"]["ty"]]
            n = st.count("built")
            st.add_eff(("vec-new", n))
            return Opaque("vec", (("built", n), rt["args"][0] if rt.get("args") else None))

        def m_vec_push(ip_, st, fr, t, args):
            r = args[0]
            v = val(st, r)
            if isinstance(v, Opaque) and v.tag == "vec" and isinstance(v.data[0], tuple) and v.data[0] and v.data[0][0] == "built":
                st.add_eff(("vec-push", v.data[0][1]))
                return UNIT
            return None
        M = ip.models
        M["std::vec::Vec::<T>::new"] = m_vec_new
        M["std::vec::Vec::<T>::with_capacity"] = m_vec_new
        M["std::vec::Vec::<T, A>::push"] = m_vec_push
        ip.primitives[self.f.body("elf::read_elf")["key"]] = m_read_elf
        self.ehdr = None
        kh = self.f.find("parse_elf_header32")
        if len(kh) == 1:
            ip.primitives[kh[0]] = m_parse_header
        def m_filter(ip_, st, fr, t, args):
            it = val(st, args[0])
            src = it.data[0] if isinstance(it, Opaque) and it.tag == "iter" else None
            try:
                cty = types[ip_.operand_ty(t["args"][1])]
            except Exception:
                cty = {}
            if src is None or cty.get("k") != "closure" or cty.get("path") not in ip_.f.bodies:
                return None
            envroot = ("filterenv", st.count("filterenv"))
            st.mem[envroot] = args[1]
            return Opaque("iter", (("filter", src, cty["path"], envroot), st.count("iter")))

        def next_filtered(ip_, st, fr, t, it):
            """next() of iter.filter(pred): draw an element, evaluate the predicate body on it; an element for which it is
            false is reported as a 'filtered-out' outcome (the rules decide whether the property needed that element)"""
            _, src, ckey, envroot = it.data[0]
            rt = types[t["dest"]["ty"]]
            et = rt["args"][0]
            n = st.count("next")
            alts = symgen.alternatives(ip_, st, et, "%s.item%d" % (str(src)[:20], n))
            if len(alts) != 1:
                return None
            v, hook = alts[0]
            if hook:
                hook(st)
            elroot = ("filt-el", n)
            st.mem[elroot] = v
            ev = v
            if isinstance(ev, Ref):
                ev = ip_.read_loc(st, ev.root, ev.path)
            name = it.data[0]

            def transform(st2, ret, v=v, ev=ev, name=name, n=n, src=src):
                if not isinstance(ret, Int):
                    st2.tag("unknown-callee")
                    return [(None, Enum(models.NONE, []))]
                b = ret.bits[0]
                return [(b, Enum(models.SOME, [v]), lambda s_: s_.add_eff(("iter-next", name, n, ev))),
                        ("panic", bv.M.NOT(b), {"kind": "filtered-out", "elem": ev, "name": name, "src": src, "eff": st2.eff}),
                        (None, Enum(models.NONE, []), lambda s_: s_.add_eff(("iter-done", name)))]
            body = ip_.f.bodies[ckey]
            env = Ref(envroot, ()) if types[body["locals"][1]["ty"]]["k"] == "ref" else st.mem[envroot]
            return ("tailcall", ckey, [env, Ref(elroot, ())], transform)

        def m_rev(ip_, st, fr, t, args):
            it = val(st, args[0])
            return Opaque("iter", (("rev", it.data[0] if isinstance(it, Opaque) and it.tag == "iter" else None), st.count("iter")))

        def m_next_any(ip_, st, fr, t, args):
            it = val(st, args[0])
            if isinstance(it, Opaque) and it.tag == "iter" and isinstance(it.data[0], tuple) and it.data[0] and it.data[0][0] == "filter":
                r_ = next_filtered(ip_, st, fr, t, it)
                if r_ is not None:
                    return r_
                return typed_unknown(ip_, st, fr, t, args, t["callee"]["path"])
            if isinstance(it, Opaque) and it.tag == "iter":
                return m_next(ip_, st, fr, t, args)
            return typed_unknown(ip_, st, fr, t, args, t["callee"]["path"])
        M["std::iter::Iterator::rev"] = m_rev
        M["std::iter::Iterator::filter"] = m_filter
        ip.pattern_models.append((lambda p, f: p.endswith("as std::iter::Iterator>::next") or p == "std::iter::Iterator::next", m_next_any))
        M["nom::multi::count"] = m_nom_count
        M["nom::Parser::parse"] = m_nom_parse
        ip.pattern_models.append((lambda p, f: (p.startswith("std::iter::Iterator::") or p.startswith("std::vec::Vec::<T, A>::")) and p.split("::")[-1] in LOSSY_ADAPTORS, m_lossy))
        M["<std::vec::Vec<T, A> as std::ops::Deref>::deref"] = m_vec_deref
        M["<std::vec::Vec<T, A> as std::ops::Index<I>>::index"] = m_index
        M["core::slice::index::<impl std::ops::IndexMut<I> for [T]>::index_mut"] = m_index
        M["core::slice::index::<impl std::ops::Index<I> for [T]>::index"] = m_index
        M["core::slice::<impl [T]>::copy_from_slice"] = m_copy
        M["std::vec::Vec::<T, A>::len"] = m_len
        M["std::vec::Vec::<T, A>::insert"] = m_insert
        M["<std::vec::Vec<T, A> as std::iter::IntoIterator>::into_iter"] = m_iter
        M["<&'a std::vec::Vec<T, A> as std::iter::IntoIterator>::into_iter"] = m_iter
        M["core::slice::iter::<impl std::iter::IntoIterator for &'a [T]>::into_iter"] = m_iter
        M["core::slice::<impl [T]>::iter"] = m_iter
        M["<I as std::iter::IntoIterator>::into_iter"] = m_iter
        M["std::iter::Iterator::map"] = m_map
        M["std::iter::Iterator::collect"] = m_collect
        M["<std::vec::IntoIter<T, A> as std::iter::Iterator>::next"] = m_next
        M["<std::slice::Iter<'a, T> as std::iter::Iterator>::next"] = m_next
        M["std::iter::range::<impl std::iter::Iterator for std::ops::Range<A>>::next"] = m_next
        M["<std::string::String as std::cmp::PartialEq<&str>>::eq"] = m_string_eq
        M["std::ops::RangeInclusive::<Idx>::new"] = m_rangeincl
        M["core::slice::<impl [T]>::starts_with"] = m_bytes_test("prefix")
        M["core::str::<impl str>::as_bytes"] = m_as_bytes
        M["core::str::<impl str>::split_whitespace"] = m_split_ws

        def typed_unknown(ip_, st, fr, t, args, key):
            tid = t["dest"]["ty"]
            if types[tid]["k"] == "never":
                return None
            return symgen.outcomes(ip_, st, tid, key.split("::")[-1].split("<")[0][:24] + "@%d" % st.count("unk"))
        ip.typed_unknown = typed_unknown
        # models that decline (return None) fall back to the typed unknown
        for name, fn in list(M.items()):
            if fn in (m_index, m_len, m_string_eq, m_unwrap_or_else, m_nom_parse, m_filter, m_vec_push) or name.endswith("::starts_with"):
                def wrap(ip_, st, fr, t, args, fn=fn, name=name):
                    r = fn(ip_, st, fr, t, args)
                    if r is None:
                        return typed_unknown(ip_, st, fr, t, args, name)
                    return r
                M[name] = wrap

    # ------------------------------------------------------------------ run
    def run(self, args_term=("args",)):
        ip = self.ip
        body = self.body
        mem = {}
        cpu = self.I.fresh_cpu()
        fs = list(cpu.fields)
        busref = self.bm.fresh(mem)
        fs[self.I.fi["bus"]] = mem.pop(BUS_ROOT)
        fs[self.I.fi["exit_addr"]] = Int(bv.seq_bv("exit0", 32))
        cpu = Agg(fs)
        # the Bus lives inside the Cpu: alias BUS_ROOT accesses through the cpu field
        self.cpu_root = isamod.CPU_ROOT
        mem[isamod.CPU_ROOT] = cpu
        self.bus_path = (self.I.fi["bus"],)
        self.header_info = {}
        # every natural loop of elf::load AND of the helper functions it calls is generalised at its header
        cg = cfgmod.CallGraph(self.f)
        bodies_with_loops = {self.key: (body, self.loops)}
        for k in sorted(cg.reachable(self.key)):
            if k == self.key or k not in self.f.bodies or k in ip.primitives:
                continue
            lp = cfgmod.Cfg(self.f.bodies[k]).loops()
            if lp:
                bodies_with_loops[k] = (self.f.bodies[k], lp)
        self.helper_loops = {k: sorted(v[1]) for k, v in bodies_with_loops.items() if k != self.key}
        ip.hooks_any_depth = True

        def loop_id(bkey, h):
            return h if bkey == self.key else (bkey.split("::")[-1], h)

        def carried_locals(b, blocks):
            a = set()
            for b_ in blocks:
                bl = b["blocks"][b_]
                for s in bl["st"]:
                    if s["k"] == "assign" and not s["p"]["p"]:
                        a.add(s["p"]["l"])
                    # a local mutated through a reference taken inside the loop (iterator.next(&mut it)) is loop-carried too
                    if s["k"] == "assign" and s["r"]["k"] == "ref" and s["r"].get("mut") and not any(pr["k"] == "deref" for pr in s["r"]["p"]["p"]):
                        a.add(s["r"]["p"]["l"])
                t = bl["term"]
                if t["k"] == "call" and not t["dest"]["p"]:
                    a.add(t["dest"]["l"])
            return a

        def mk_hook(bkey, b, h, assigned_h):
            names = {i: l["n"] for i, l in enumerate(b["locals"]) if l["n"]}
            hid = loop_id(bkey, h)

            def at_header(ip_, st, fr, n):
                if n >= 1:
                    st.add_eff(("loop-back", hid, self.snapshot(st, fr, assigned_h, names)))
                    return "stop"
                st.add_eff(("loop-enter", hid, self.snapshot(st, fr, assigned_h, names)))
                for l in assigned_h:
                    root = ("f", fr.fid, l)
                    cur = st.mem.get(root)
                    nm = names.get(l, "l%d" % l)
                    tagn = "h%s_%s" % (h if bkey == self.key else "%s%d" % (bkey.split("::")[-1][:10], h), nm)
                    if isinstance(cur, Int):
                        st.mem[root] = Int(bv.seq_bv(tagn, len(cur.bits)))
                    elif isinstance(cur, Agg) and len(cur.fields) == 2 and all(isinstance(x, Int) for x in cur.fields):
                        st.mem[root] = Agg([Int(bv.seq_bv(tagn + ".start", len(cur.fields[0].bits))), cur.fields[1]])
                # contents of the stores become arbitrary (they were written by earlier iterations)
                bus = st.mem[isamod.CPU_ROOT].fields[self.I.fi["bus"]]
                for sname in self.bm.stores:
                    fld = bus.fields[self.bm.fi[sname]]
                    if isinstance(fld, SymArr):
                        continue
                    arr = st.mem.get(("h", sname))
                    if isinstance(arr, SymArr) and arr.writes:
                        st.mem[("h", sname)] = SymArr(arr.name, arr.n, arr.width, ())
                st.add_eff(("loop-head", hid, self.snapshot(st, fr, assigned_h, names)))
                return "continue"
            return at_header
        for bkey, (b, lp) in bodies_with_loops.items():
            for h, blocks in lp.items():
                ip.block_hooks[(bkey, h)] = mk_hook(bkey, b, h, carried_locals(b, blocks))
        elf_path = strmodel.S(("path",))
        argstr = strmodel.S(args_term)
        outs = ip.run_all(self.key, [elf_path, Ref(isamod.CPU_ROOT, ()), argstr], mem)
        # vectors filled by a loop: one push per element drawn from one collection, and no push outside that loop
        BUILT.clear()
        cand = {}
        for o in outs:
            effs = list(o.state.eff)
            cur_loop = None
            seg_next = []
            seg_push = []
            for e in effs:
                if e[0] == "loop-head":
                    cur_loop = e[1]
                    seg_next, seg_push = [], []
                elif e[0] == "iter-next" and cur_loop is not None:
                    seg_next.append(e[1])
                elif e[0] == "vec-push":
                    if cur_loop is None:
                        cand[e[1]] = False
                    else:
                        seg_push.append(e[1])
                elif e[0] == "loop-back" and cur_loop is not None and e[1] == cur_loop:
                    for n_ in set(seg_push):
                        okb = seg_push.count(n_) == 1 and len(seg_next) == 1
                        if cand.get(n_, True) is not False:
                            if not okb or (n_ in cand and cand[n_] != seg_next[0]):
                                cand[n_] = False
                            else:
                                cand[n_] = seg_next[0]
                    # an iteration of a loop that draws an element but pushes nothing loses that element
                    cur_loop = None
            # iterations (loop-head .. loop-back) that draw from the source without pushing
        for o in outs:
            effs = list(o.state.eff)
            for i_, e in enumerate(effs):
                if e[0] == "loop-back":
                    heads = [j for j in range(i_) if effs[j][0] == "loop-head" and effs[j][1] == e[1]]
                    if not heads:
                        continue
                    seg = effs[heads[-1]:i_]
                    nx = [x[1] for x in seg if x[0] == "iter-next"]
                    ps = [x[1] for x in seg if x[0] == "vec-push"]
                    for n_, src in list(cand.items()):
                        if src is not False and nx and nx[0] == src and len(nx) == 1 and n_ not in ps:
                            # does this loop also fill n_ on other traces?  then an element was skipped
                            cand[n_] = False
        for n_, src in cand.items():
            if src is not False:
                BUILT[n_] = src
        return outs

    def snapshot(self, st, fr, locals_, names):
        out = {}
        for l in locals_:
            v = st.mem.get(("f", fr.fid, l))
            if l in names and isinstance(v, Int):
                out[names[l]] = v.bits
            elif isinstance(v, Agg) and len(v.fields) == 2 and all(isinstance(x, Int) for x in v.fields):
                # a Range iterator: its current position
                out["%s.start" % names.get(l, "l%d" % l)] = v.fields[0].bits
        return out

    def store_of(self, st, name):
        bus = st.mem[isamod.CPU_ROOT].fields[self.I.fi["bus"]]
        v = bus.fields[self.bm.fi[name]]
        if isinstance(v, SymArr):
            return v
        return st.mem[("h", name)]
