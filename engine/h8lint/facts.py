"""Loading of the MIR facts produced by engine/h8facts and extraction driver."""
import hashlib
import json
import os
import subprocess
import sys
import time

VERIF = os.path.dirname(os.path.dirname(os.path.dirname(os.path.abspath(__file__))))
REPO = os.environ.get("H8_REPO", "/repo")
CACHE = os.path.join(VERIF, ".cache")
DRIVER = os.path.join(VERIF, "engine", "h8facts", "target", "release", "h8facts")
BODY_FLOOR = 400  # 576 bodies on the pinned tree; a de-duplication may remove dozens of handlers, a driver that saw only part of the crate would be far below


class FactsError(Exception):
    pass


def tree_hash():
    """sha256 over every file that can influence the build of /repo (tracked or not)."""
    h = hashlib.sha256()
    paths = []
    for base in ("src",):
        for root, dirs, files in os.walk(os.path.join(REPO, base)):
            dirs.sort()
            for f in sorted(files):
                paths.append(os.path.join(root, f))
    for f in ("Cargo.toml", "Cargo.lock", "build.rs"):
        p = os.path.join(REPO, f)
        if os.path.exists(p):
            paths.append(p)
    for p in sorted(paths):
        h.update(os.path.relpath(p, REPO).encode())
        h.update(b"\0")
        with open(p, "rb") as fh:
            h.update(fh.read())
        h.update(b"\0")
    with open(DRIVER, "rb") as fh:
        h.update(hashlib.sha256(fh.read()).digest())
    return h.hexdigest()[:24]


def nightly_sysroot():
    return subprocess.check_output(["rustc", "+nightly", "--print", "sysroot"], text=True).strip()


def extract(profile="dev", force=False):
    """Run the driver over /repo's working tree; returns path of the facts file."""
    if not os.path.exists(DRIVER):
        raise FactsError("driver not built: run ./check --setup")
    os.makedirs(os.path.join(CACHE, "facts"), exist_ok=True)
    th = tree_hash()
    out = os.path.join(CACHE, "facts", "%s-%s.json" % (th, profile))
    if os.path.exists(out) and not force:
        return out
    # serialise concurrent extractions (several checks may start together)
    lock = out + ".lock"
    import fcntl
    with open(lock, "w") as lf:
        fcntl.flock(lf, fcntl.LOCK_EX)
        if os.path.exists(out) and not force:
            return out
        target = os.path.join(CACHE, "target-" + profile)
        # one extraction per target directory at a time (checks on different trees may run concurrently: scratch copies, mutation controls)
        tlock = open(os.path.join(CACHE, "target-%s.lock" % profile), "w")
        fcntl.flock(tlock, fcntl.LOCK_EX)
        # force the wrapper to run on the workspace member: remove its fingerprints
        fpdir = os.path.join(target, "release" if profile == "release" else "debug", ".fingerprint")
        if os.path.isdir(fpdir):
            for d in os.listdir(fpdir):
                if d.startswith("koge29_h8-3069f_emulator-") or d.startswith("koge29_h8_3069f_emulator-"):
                    subprocess.call(["rm", "-rf", os.path.join(fpdir, d)])
        tmp = out + ".tmp.%d" % os.getpid()
        env = dict(os.environ)
        env.update({
            "LD_LIBRARY_PATH": nightly_sysroot() + "/lib",
            "RUSTFLAGS": "-Zmir-opt-level=0 -Awarnings",
            "RUSTC_WORKSPACE_WRAPPER": DRIVER,
            "H8FACTS_OUT": tmp,
            "CARGO_TARGET_DIR": target,
            "CARGO_NET_OFFLINE": "true",
        })
        env.pop("RUSTC_WRAPPER", None)
        cmd = ["cargo", "+nightly", "check", "--offline", "--manifest-path", os.path.join(REPO, "Cargo.toml")]
        if profile == "release":
            cmd.append("--release")
        t = time.time()
        p = subprocess.run(cmd, env=env, stdout=subprocess.PIPE, stderr=subprocess.STDOUT, text=True)
        if p.returncode != 0 or not os.path.exists(tmp):
            fcntl.flock(tlock, fcntl.LOCK_UN)
            tlock.close()
        if p.returncode != 0:
            raise FactsError("cargo check failed (the tree does not compile?):\n" + p.stdout[-4000:])
        if not os.path.exists(tmp):
            raise FactsError("driver did not run (no facts file written):\n" + p.stdout[-2000:])
        os.replace(tmp, out)
        fcntl.flock(tlock, fcntl.LOCK_UN)
        tlock.close()
        sys.stderr.write("[h8facts] extracted %s facts in %.1fs -> %s\n" % (profile, time.time() - t, out))
    # keep the cache small
    try:
        files = sorted((os.path.join(CACHE, "facts", f) for f in os.listdir(os.path.join(CACHE, "facts")) if f.endswith(".json")), key=os.path.getmtime)
        now = time.time()
        for f in files[:-400]:
            if now - os.path.getmtime(f) > 7200:      # never evict a file another process may be about to load (a long check reloads it in its workers)
                os.remove(f)
        for f in os.listdir(os.path.join(CACHE, "facts")):
            if ".json.tmp." in f and now - os.path.getmtime(os.path.join(CACHE, "facts", f)) > 3600:
                os.remove(os.path.join(CACHE, "facts", f))       # left behind by an interrupted extraction
                continue
            if f.endswith(".lock") and not os.path.exists(os.path.join(CACHE, "facts", f[:-5])):
                os.remove(os.path.join(CACHE, "facts", f))
    except OSError:
        pass
    return out


class Facts:
    def __init__(self, path):
        with open(path) as fh:
            d = json.load(fh)
        self.path = path
        self.raw = d
        self.types = d["types"]
        self.consts = {c["name"]: c for c in d["consts"]}
        self.statics = {c["name"]: c for c in d.get("statics", [])}
        self.bodies = {}
        for b in d["bodies"]:
            if b["key"] in self.bodies:
                raise FactsError("duplicate body key " + b["key"])
            self.bodies[b["key"]] = b
        if len(self.bodies) < BODY_FLOOR:
            raise FactsError("only %d bodies extracted (floor %d)" % (len(self.bodies), BODY_FLOOR))
        self.overflow_checks = d["profile_overflow_checks"]
        self.type_by_path = {}
        for i, t in enumerate(self.types):
            if t["k"] == "adt":
                self.type_by_path.setdefault(t["path"], i)

    def const_int(self, name):
        c = self.consts.get(name)
        if c is None:
            raise FactsError("const %s not found" % name)
        return int(c["v"]["int"])

    def body(self, suffix):
        """Find the unique body whose key equals or ends with ::suffix."""
        if suffix in self.bodies:
            return self.bodies[suffix]
        c = [k for k in self.bodies if k.endswith("::" + suffix)]
        if len(c) != 1:
            raise FactsError("anchor %r: %d candidates %r" % (suffix, len(c), c[:5]))
        return self.bodies[c[0]]

    def find(self, suffix):
        c = [k for k in self.bodies if k == suffix or k.endswith("::" + suffix)]
        return c

    def struct_fields(self, path):
        t = self.types[self.type_by_path[path]]
        return [f["n"] for f in t["variants"][0]["fields"]]

    def ty(self, i):
        return self.types[i]


def load(profile="dev"):
    return Facts(extract(profile))
