"""Comparison of the instruction effect summaries extracted from the MIR with the
reference semantics of spec.py: for every trace of Cpu::exec and every instruction
form whose encoding intersects the trace's path condition, the final architectural
state, the ordered memory effects, the fetch count, the cost terms and the returned
charge must agree for ALL values (BDD equality under the care set)."""
import bv
from bdd import BddBudget
import spec
from interp import Enum, Int, SymArr, Opaque
import models


class Finding:
    def __init__(self, props, key, form, aspect, msg, witness=None, detail=None):
        self.props = props
        self.key = key
        self.form = form
        self.aspect = aspect
        self.msg = msg
        self.witness = witness
        self.detail = detail or {}

    def to_json(self):
        return {"props": self.props, "key": self.key, "form": self.form, "aspect": self.aspect, "msg": self.msg, "witness": self.witness, "detail": self.detail}


def const_under(bits, care):
    """the constant value of a bit vector on the care set, or None"""
    v = bv.to_int(bits)
    if v is not None:
        return v
    r = tuple(bv.M.restrict_care(b, care) for b in bits)
    v = bv.to_int(r)
    if v is not None:
        return v
    # exact fallback
    val = 0
    for i, b in enumerate(bits):
        if bv.M.AND(care, bv.M.NOT(b)) == 0:
            val |= 1 << i
        elif bv.M.AND(care, b) == 0:
            pass
        else:
            return None
    return val


def group_witness(assign_named):
    """{'er0.3':1,...} -> {'er0': '0x8', ...}"""
    vals = {}
    for name, v in assign_named.items():
        if "." in name:
            base, bit = name.rsplit(".", 1)
            try:
                bit = int(bit)
            except ValueError:
                vals[name] = v
                continue
            cur = vals.get(base, 0)
            if v:
                cur |= 1 << bit
            vals[base] = cur
        else:
            vals[name] = v
    return {k: (hex(v) if isinstance(v, int) else v) for k, v in sorted(vals.items())}


def decide_with_arrays(ip, d, max_field_bits=12):
    """d is a non-empty difference condition that may mention blocks of variables standing
    for `array[symbolic index]`.  Decide it exactly by instantiating the index fields: for
    every assignment of the index-field variables each symbolic block is renamed to the
    block of the concrete element it then designates.  Returns the refined condition (0 if
    the difference is spurious) or None if the index fields are too wide to enumerate."""
    Mx = bv.M
    sup = Mx.support(d)
    keys = []
    for (name, idx), block in ip.arr_blocks.items():
        if bv.to_int(idx) is not None:
            continue
        if any(Mx.var[b] in sup for b in block):
            keys.append((name, idx, block))
    if not keys:
        return d
    fsup = set()
    for _, idx, _ in keys:
        for bit in idx:
            Mx.support(bit, fsup, set())
    fsup = sorted(fsup)
    if len(fsup) > max_field_bits:
        return None
    for m in range(1 << len(fsup)):
        sigma = {r: (m >> i) & 1 for i, r in enumerate(fsup)}
        ds = Mx.restrict(d, sigma)
        if ds == 0:
            continue
        subst = {}
        for name, idx, block in keys:
            v = 0
            for i, bit in enumerate(idx):
                if Mx.eval(bit, sigma):
                    v |= 1 << i
            conc = ip.arr_block(name, len(block), bv.const(v, len(idx)))
            for sb, cb in zip(block, conc):
                subst[Mx.var[sb]] = cb
        d2 = Mx.compose(ds, subst)
        if d2 != 0:
            cube = 1
            for r, val in sigma.items():
                x = Mx.mk(r, 0, 1)
                cube = Mx.AND(cube, x if val else Mx.NOT(x))
            return Mx.AND(d2, cube)
    return 0


class IsaCheck:
    def __init__(self, isa, ip, outs, w0, constraint=1):
        self.isa = isa
        self.ip = ip
        self.outs = outs
        self.w0 = w0
        self.findings = {}
        self._exas = {}
        self._touched = False
        self._acc = {}
        self.last_full = None
        self.last_code = None
        self.obligations = 0
        self.discharged = 0
        self.samples = []
        self.form_stats = {}
        self._A = None
        spec.build()
        self.pc_entry = bv.data_bv("pc", 24) + (0,) * 8
        # precondition: the first instruction word was fetched from mapped memory, hence the
        # PC at entry of exec() is at most H'FFFFEA (last mapped word + 2)
        self.pre = bv.ule(self.pc_entry, bv.const(0xFFFFEA, 32))
        self.ob = {}
        self.cls = "misc"
        self.ccr0 = bv.ccr_bv()
        self.sems = {}
        self.constraint = constraint
        for f in spec.FORMS:
            cond = spec.pattern_cond(f.words)
            if bv.M.AND(cond, constraint) == 0:
                continue
            s = spec.Sem(ip, f, self.pc_entry, self.ccr0)
            f.sem(s)
            self.sems[f.name] = (f, cond, s)

    def A(self):
        if self._A is None:
            self._A = self.ip.arr_assumptions("er")
        return self._A

    def add(self, props, form, aspect, msg, cond=None, detail=None):
        """record a finding; the same (form, aspect) reported by several traces is ONE finding whose condition is the
        union over the traces, so that its fingerprint does not depend on how the code happens to be partitioned"""
        key = "%s|%s" % (form, aspect)
        self._touched = True
        Mx = bv.M
        full = self.last_full if self.last_full not in (None, 0) else cond
        code = None
        if self.last_code is not None:
            vec, care_ = self.last_code
            code = [Mx.AND(x, care_) for x in vec]
        self.last_full = None
        self.last_code = None
        if key in self.findings:
            acc = self._acc.get(key)
            if acc is not None:
                if full not in (None,) and acc["cond"] is not None:
                    acc["cond"] = Mx.OR(acc["cond"], full)
                if code is not None and acc["code"] is not None and len(code) == len(acc["code"]):
                    acc["code"] = [Mx.OR(a_, b_) for a_, b_ in zip(acc["code"], code)]
                elif code is not None or acc["code"] is not None:
                    acc["code"] = None if code is None or acc["code"] is None or len(code) != len(acc["code"]) else acc["code"]
            return
        wit = None
        detail = dict(detail or {})
        if cond is not None:
            a = Mx.sat_one(cond)
            if a is not None:
                wit = group_witness(Mx.describe_assign(a))
        self._acc[key] = {"cond": full, "code": code}
        self.findings[key] = Finding(props, key, form, aspect, msg, wit, detail)

    def finalise(self):
        """fingerprints of the findings: WHICH inputs fail (extent of the union condition) and WHAT is computed instead
        (behaviour: per-bit weight of the code-side value on the failing form's domain)"""
        import hashlib
        for key, acc in self._acc.items():
            f = self.findings[key]
            if acc["cond"] not in (None, 0, 1):
                f.detail["extent"] = self.extent(acc["cond"])
            if acc["code"] is not None:
                sig = ",".join(self.extent(x) if x > 1 else str(x) for x in acc["code"])
                f.detail["behaviour"] = hashlib.sha1(sig.encode()).hexdigest()[:12]

    def extent(self, d):
        """fraction of the input space (over the variables the condition mentions, auxiliary
        success flags and cost multipliers projected away) on which the violation occurs -
        a semantic fingerprint of *which* inputs fail"""
        Mx = bv.M
        aux = set(r for r in Mx.support(d) if 100 <= r < 2000)
        if aux:
            d = Mx.exists(d, aux)
        sup = sorted(Mx.support(d))
        if not sup:
            return "1/1"
        n = Mx.sat_count(d, sup)
        k = len(sup)
        while n % 2 == 0 and k > 0:
            n //= 2
            k -= 1
        return "%d/2^%d" % (n, k)

    def count(self, ok):
        c = self.ob.setdefault(self.cls, [0, 0])
        c[0] += 1
        self.obligations += 1
        if ok:
            c[1] += 1
            self.discharged += 1

    def decode_cube(self, pc):
        """instruction-word bits that are constant on a trace: {rank: 0/1}"""
        Mx = bv.M
        fixed = {}
        for r in Mx.support(pc):
            if r in bv.decode_ranks:
                x = Mx.mk(r, 0, 1)
                if Mx.AND(pc, x) == 0:
                    fixed[r] = 0
                elif Mx.AND(pc, Mx.NOT(x)) == 0:
                    fixed[r] = 1
        return fixed

    def differs(self, a, b, care):
        """condition (within care, under the array axioms) where bit vectors a and b differ; 0 if equal"""
        Mx = bv.M
        if a == b:
            self.count(True)
            return 0
        d = 0
        for x, y in zip(a, b):
            if x != y:
                di = Mx.AND(Mx.XOR(x, y), care)
                if di != 0:
                    di = self.decide_with_arrays(di)
                    if di != 0:
                        d = di
                        break
        self.count(d == 0)
        if d != 0:
            # the complete difference is only used to describe the finding (extent, behaviour signature);
            # it is computed under a node budget and falls back to the deciding bit's difference
            full = 0
            Mx.limit = len(Mx.var) + 400000
            try:
                for x, y in zip(a, b):
                    if x != y:
                        full = Mx.OR(full, Mx.AND(Mx.XOR(x, y), care))
            except BddBudget:
                full = d
                self.budget_hits = getattr(self, "budget_hits", 0) + 1
            finally:
                Mx.limit = None
            self.last_full = full
            self.last_code = (tuple(a), care)
        return d

    def decide_with_arrays(self, d):
        r = decide_with_arrays(self.ip, d)
        if r is None:
            self.undecided = getattr(self, "undecided", 0) + 1
            return d
        return r

    # ------------------------------------------------------------------
    def run(self):
        Mx = bv.M
        total = 0
        for o in self.outs:
            total = Mx.OR(total, o.state.pc)
        # modulo the auxiliary variables (primitive success flags, bounded cost multipliers)
        aux = set(r for r in Mx.support(total) if 100 <= r < 2000)
        self.partition_complete = (Mx.exists(total, aux) == self.constraint)
        for o in self.outs:
            st = o.state
            if o.kind not in ("return", "panic"):
                self.add(["ENGINE"], "-", "outcome:" + o.kind, "unexpected trace outcome %s %r" % (o.kind, o.info), st.pc)
                continue
            fixed = None
            imprecise = [t_ for t_ in st.tags if t_ in ("opaque-switch", "opaque-assert", "unknown-callee", "unwrap-opaque")]
            if o.kind == "panic":
                # a panic is a finding for EVERY word sequence that reaches it - also for sequences that encode nothing (an illegal
                # opcode must surface as an error): reported here when no implemented form covers the trace (compare() reports the rest)
                covered = 0
                for name, (f, cond, sem0) in self.sems.items():
                    covered = Mx.OR(covered, Mx.AND(cond, sem0.assume))
                rest = Mx.AND(Mx.AND(st.pc, self.pre), Mx.NOT(covered))
                if rest != 0:
                    self.cls = "panic"
                    self.count(False)
                    if imprecise:
                        self.add(["ENGINE"], "undefined encoding", "imprecise", "a panic trace outside the implemented forms was followed imprecisely (%s): not decidable" % ",".join(imprecise), rest)
                    else:
                        self.add(["C15"], "undefined encoding", "panic:%s:%s" % (o.info.get("kind"), o.info["fn"].split("::")[-1]),
                                 "panic (%s %s) reachable in %s line %s for a word sequence that encodes no implemented instruction (it must be rejected with an error)"
                                 % (o.info.get("kind"), o.info.get("op"), o.info["fn"], o.info.get("line")), rest, {"stack": o.info.get("stack"), "line": o.info.get("line")})
            for name, (f, cond, sem0) in self.sems.items():
                if Mx.AND(Mx.AND(st.pc, cond), sem0.assume) == 0:
                    continue
                # instantiate the reference semantics on this trace's decode cube
                if fixed is None:
                    fixed = self.decode_cube(st.pc)
                sem = spec.Sem(self.ip, f, self.pc_entry, self.ccr0, fixed)
                f.sem(sem)
                care = Mx.AND(Mx.AND(Mx.AND(st.pc, cond), sem.assume), self.pre)
                if care == 0:
                    continue
                fs = self.form_stats.setdefault(name, {"traces": 0, "ok": 0, "err": 0, "panic": 0})
                fs["traces"] += 1
                if imprecise:
                    # a trace the interpreter followed imprecisely decides nothing: never a finding, always a checker error
                    self.add(["ENGINE"], name, "imprecise", "a trace of %s was followed imprecisely (%s): not decidable" % (name, ",".join(imprecise)), care)
                    continue
                self._touched = False
                self.compare(o, f, sem, care, fs)
                if self._touched and o.kind == "return" and isinstance(o.value, Enum) and o.value.variant == models.OK:
                    self.executes_as(o, f, care, fixed)
                if len(self.samples) < 6 and o.kind == "return":
                    self.samples.append({"form": name, "trace_outcome": o.kind, "decode_bits_fixed": len(fixed),
                                         "effects": [e[0] for e in st.eff], "path_condition_nodes": Mx.size(st.pc)})
        # unimplemented instructions must have no Ok path
        self.unimpl_checked = 0
        self.cls = "decode"
        for u in spec.UNIMPL:
            cu = spec.pattern_cond(u.words)
            if Mx.AND(cu, self.constraint) == 0:
                continue
            hit = 0
            for o in self.outs:
                if o.kind != "return" or not isinstance(o.value, Enum) or o.value.variant != models.OK:
                    continue
                if any(t_ in ("opaque-switch", "opaque-assert", "unknown-callee", "unwrap-opaque") for t_ in o.state.tags):
                    if Mx.AND(o.state.pc, cu) != 0:
                        self.add(["ENGINE"], u.name, "imprecise", "a trace covering encodings of %s was followed imprecisely: not decidable" % u.name, Mx.AND(o.state.pc, cu))
                    continue
                c = Mx.AND(o.state.pc, cu)
                if c != 0:
                    hit = Mx.OR(hit, c)
            self.unimpl_checked += 1
            self.count(hit == 0)
            if hit != 0:
                self.add(["C07"], u.name, "unimpl-executed", "an encoding of the unimplemented instruction %s has a successful execution path" % u.name, hit)
        for fname, (ndev, cand) in sorted(self._exas.items()):
            for gname, (nsame, cond_) in sorted(cand.items()):
                if ndev >= 1 and nsame == ndev:
                    self.cls = "decode"
                    self.count(False)
                    self.add(["C07"], fname, "executes-as", "every deviating execution of %s has exactly the effect of %s (registers, flags, PC, accesses): the word is decoded as "
                             "the wrong instruction" % (fname, gname), cond_, {"as": gname})
                    break
        self.check_undefined()
        self.finalise()
        return self.findings

    # ------------------------------------------------------------ undefined encodings
    def word_ranks(self):
        Mx = bv.M
        r = set()
        for k in range(6):
            for b in spec.word_vars(k):
                if b > 1:
                    r.add(Mx.var[b])
        return r

    def export_bdd(self, a):
        """a BDD over instruction-word bits as a portable node list [(variable name, lo, hi)], 0/1 terminals"""
        Mx = bv.M
        idx = {0: 0, 1: 1}
        nodes = []

        def rec(n):
            if n in idx:
                return idx[n]
            lo = rec(Mx.lo[n])
            hi = rec(Mx.hi[n])
            nodes.append([Mx.names[Mx.var[n]], lo, hi])
            idx[n] = len(nodes) + 1
            return idx[n]
        root = rec(a)
        return {"nodes": nodes, "root": root}

    def import_bdd(self, d):
        Mx = bv.M
        val = {0: 0, 1: 1}
        for i, (name, lo, hi) in enumerate(d["nodes"]):
            w, b = name[1:].split(".")
            v = spec.word_vars(int(w))[int(b)]
            val[i + 2] = Mx.ITE(v, val[hi], val[lo])
        return val[d["root"]]

    def check_undefined(self):
        """every successfully executed word sequence is a valid encoding of an implemented form (C07 title: '... or rejected').  The
        emulator at the pinned commit ignores a number of reserved / must-be-zero bits; those encodings are listed in
        tolerated_reserved.json (reviewed table, one BDD over the instruction-word bits per first byte).  An Ok path on any OTHER
        undefined encoding - a continuation word of the wrong group accepted under a prefix, a hole of the opcode map that starts to
        execute - is a finding.  Semantic: the set of accepted encodings, not the shape of the decoder."""
        import json
        import os
        Mx = bv.M
        cov = 0
        for f in spec.FORMS:
            cov = Mx.OR(cov, spec.pattern_cond(f.words))
        for u in spec.UNIMPL:
            cov = Mx.OR(cov, spec.pattern_cond(u.words))
        wr = self.word_ranks()
        stray = 0
        for o in self.outs:
            if o.kind != "return" or not isinstance(o.value, Enum) or o.value.variant != models.OK:
                continue
            if any(t_ in ("opaque-switch", "opaque-assert", "unknown-callee", "unwrap-opaque") for t_ in o.state.tags):
                continue     # imprecise traces decide nothing (reported by the per-form comparison)
            s_ = Mx.AND(o.state.pc, Mx.NOT(cov))
            if s_ == 0:
                continue
            stray = Mx.OR(stray, Mx.exists(s_, set(Mx.support(s_)) - wr))
        self.stray = {}
        tolp = os.path.join(os.path.dirname(os.path.abspath(__file__)), "tolerated_reserved.json")
        tol_tab = {}
        if os.path.exists(tolp):
            with open(tolp) as fh:
                tol_tab = json.load(fh).get("by_first_byte", {})
        self.cls = "decode"
        for hb in range(256):
            c = Mx.AND(self.constraint, bv.eq(self.w0[8:], bv.const(hb, 8)))
            if c == 0:
                continue
            sb = Mx.AND(stray, c)
            if sb != 0:
                self.stray[hb] = self.export_bdd(sb)
            tol = self.import_bdd(tol_tab["%02x" % hb]) if ("%02x" % hb) in tol_tab else 0
            new = Mx.AND(sb, Mx.NOT(tol))
            self.count(new == 0)
            if new != 0:
                a = Mx.sat_one(new)
                ws = []
                for k in range(4):
                    v = 0
                    used = False
                    for i, b in enumerate(spec.word_vars(k)):
                        if b > 1 and Mx.var[b] in a:
                            used = True
                            if a[Mx.var[b]]:
                                v |= 1 << i
                    if used or k == 0:
                        ws.append("%04X" % v)
                self.add(["C07"], "H'%02Xxx" % hb, "undefined-executed", "a word sequence that encodes no H8/300H instruction (e.g. %s) is executed successfully instead of being rejected; "
                         "it is not among the reserved-bit patterns the emulator is known to ignore" % " ".join(ws), new)

    def executes_as(self, o, f, care, fixed):
        """a trace of form F that deviates from F's reference: does it behave exactly like a DIFFERENT implemented instruction with the
        same operand fields (e.g. ADDX Rs,Rd executed as ADD.B Rs,Rd)?  Then the word is decoded as the wrong instruction (C07)."""
        Mx = bv.M
        val = o.value
        if not isinstance(val, Enum) or val.variant != models.OK:
            return

        def layout(words):
            return tuple("".join(ch if ch not in "01" else "." for ch in w) for w in words)
        lay = layout(f.words)
        # verdict per form at the end: EVERY deviating trace of F must behave like the same G (a data-dependent sub-case that happens to
        # coincide with a sibling - SHAL with a clear sign bit and SHLL - is not a decode matter)
        rec = self._exas.setdefault(f.name, [0, {}])
        rec[0] += 1
        cpu = o.state.mem[("h", "cpu")]
        fi = self.isa.fi
        ccr = cpu.fields[fi["ccr"]].bits
        carr = cpu.fields[fi["er"]]
        cm = [e for e in o.state.eff if e[0] in ("memread", "memwrite")]
        for g in spec.FORMS:
            if g is f or len(g.words) != len(f.words) or layout(g.words) != lay or g.family == f.family and g.name == f.name:
                continue
            try:
                sem = spec.Sem(self.ip, g, self.pc_entry, self.ccr0, fixed)
                g.sem(sem)
            except Exception:
                continue
            c2 = Mx.AND(care, sem.assume)
            if c2 == 0 or sem.mes or len(cm) != len(sem.mem):
                continue
            same = self.differs(cpu.fields[fi["pc"]].bits, sem.pc, c2) == 0
            i = 0
            while same and i < 8:
                if ("ccr." + spec.FLAG_NAMES[i]) not in sem.unchecked:
                    same = self.differs((ccr[i],), (sem.ccr[i],), c2) == 0
                i += 1
            k = 0
            while same and k < 8:
                same = self.differs(self.ip.arr_read(carr, bv.const(k, 3)), self.ip.arr_read(sem.regs, bv.const(k, 3)), c2) == 0
                k += 1
            if same:
                for ce, se in zip(cm, sem.mem):
                    if ("r" if ce[0] == "memread" else "w") != se[0] or self.differs(ce[1], se[1], c2) != 0:
                        same = False
                        break
            if same:
                rec[1].setdefault(g.name, [0, 0])
                rec[1][g.name][0] += 1
                rec[1][g.name][1] = Mx.OR(rec[1][g.name][1], c2)

    def compare(self, o, f, sem, care, fs):
        Mx = bv.M
        st = o.state
        fam_props = [f.prop] if f.prop.startswith("C") else []
        semcls = "sem:" + f.prop
        stacky = any(x in f.name for x in ("+", "@-")) or f.family in ("BSR", "JSR", "RTS", "RTE", "TRAPA")
        if o.kind == "panic":
            fs["panic"] += 1
            self.cls = "panic"
            self.count(False)
            self.add(["C15"], f.name, "panic:%s:%s" % (o.info.get("kind"), o.info["fn"].split("::")[-1]),
                     "panic (%s %s) reachable in %s line %s" % (o.info.get("kind"), o.info.get("op"), o.info["fn"], o.info.get("line")), care,
                     {"stack": o.info.get("stack"), "line": o.info.get("line")})
            return
        val = o.value
        if not isinstance(val, Enum):
            self.add(["ENGINE"], f.name, "retval-shape", "return value not an enum: %r" % (val,), care)
            return
        if val.variant == models.ERR:
            fs["err"] += 1
            if "prim-failed" in st.tags:
                return
            self.cls = "decode"
            bad = Mx.AND(care, Mx.NOT(sem.may_err))
            self.count(bad == 0)
            if bad != 0:
                origin = [t for t in st.tags if t.startswith("bail:")]
                props = ["C07"] + fam_props
                if any(("get_addr_disp" in t or "pc_disp" in t) for t in origin):
                    props.append("C08")
                self.add(props, f.name, "reject", "a valid encoding of %s returns an error without any bus/cost failure (error created in %s)" % (f.name, ",".join(t[5:] for t in origin) or "?"), bad, {"origin": origin})
            return
        fs["ok"] += 1
        cpu = st.mem[("h", "cpu")]
        fi = self.isa.fi
        # no instruction of the manual reads or changes the set of pending interrupt requests
        irq = [e for e in st.eff if e[0] == "irq"]
        self.cls = semcls
        self.count(not irq)
        if irq:
            self.add((fam_props or ["C07"]) + ["C10"], f.name, "irq-queue", "%s %s the interrupt request queue: its effect depends on (or changes) which requests are pending, the manual's does not"
                     % (f.name, "/".join(sorted(set(e[1] for e in irq)))), care)
        # (a) length
        self.cls = "decode"
        nf = st.ctr.get("fetch", 0)
        self.count(nf == sem.nwords - 1)
        if nf != sem.nwords - 1:
            self.add(["C07"] + fam_props, f.name, "length", "%s consumes %d words, encoding has %d" % (f.name, nf + 1, sem.nwords), care)
        if sem.mes:
            # TRAPA #0: the handler itself only calls the MES gate (C14) and charges; it must not touch the CPU state
            self.cls = "sem:C14"
            d = self.differs(cpu.fields[fi["pc"]].bits, sem.pc_next, care)
            if d != 0:
                self.add(["C14"], f.name, "pc", "execution does not continue at the instruction following TRAPA #0", d)
            d = self.differs(cpu.fields[fi["ccr"]].bits, self.ccr0, care)
            if d != 0:
                self.add(["C14"], f.name, "ccr", "TRAPA #0 changes CCR", d)
            carr = cpu.fields[fi["er"]]
            for k in range(8):
                d = self.differs(self.ip.arr_read(carr, bv.const(k, 3)), self.ip.arr_read(SymArr("er", 8, 32), bv.const(k, 3)), care)
                if d != 0:
                    self.add(["C14"], f.name, "reg", "TRAPA #0 changes ER%d outside the MES gate" % k, d)
                    break
            nmes = len([e for e in st.eff if e[0] == "mes"])
            nmem = len([e for e in st.eff if e[0] in ("memread", "memwrite")])
            self.count(nmes == 1 and nmem == 0)
            if not (nmes == 1 and nmem == 0):
                self.add(["C14"], f.name, "gate", "TRAPA #0 does not call the MES gate exactly once, or accesses memory itself (%d calls, %d accesses)" % (nmes, nmem), care)
            return
        sem_checks = f.family != "STC"
        # (b) pc
        self.cls = semcls
        pcv = cpu.fields[fi["pc"]]
        d = self.differs(pcv.bits, sem.pc, care)
        if d != 0:
            self.add(fam_props or ["C07"], f.name, "pc", "PC after %s differs from the manual's" % f.name, d)
        # the run loop compares all 32 bits of the PC field with the exit address: PC must never carry anything in its upper byte
        # (where the reference itself leaves the 24-bit range - a relative branch past H'FFFFFF, which the emulator may also report as an
        # error - nothing is claimed)
        ref_top0 = bv.is_zero(tuple(sem.pc[24:]))
        dt = self.differs(tuple(pcv.bits[24:]), (0,) * 8, Mx.AND(care, ref_top0))
        if dt != 0:
            self.add(["C13"], f.name, "pc-upper-byte", "after %s the PC field has a non-zero upper byte: the exit test of the run loop (PC == exit address, 32 bits) "
                     "misses an exit address reached this way" % f.name, dt)
        # (c) ccr
        ccr = cpu.fields[fi["ccr"]].bits
        for i in range(8):
            if ("ccr." + spec.FLAG_NAMES[i]) in sem.unchecked:
                continue
            d = self.differs((ccr[i],), (sem.ccr[i],), care)
            if d != 0:
                self.add(fam_props or ["C07"], f.name, "flag:" + spec.FLAG_NAMES[i], "CCR.%s after %s differs from the manual's" % (spec.FLAG_NAMES[i], f.name), d)
        # (d) registers
        carr = cpu.fields[fi["er"]]
        for k in range(8):
            self.cls = semcls
            ck = self.ip.arr_read(carr, bv.const(k, 3))
            sk = self.ip.arr_read(sem.regs, bv.const(k, 3))
            d = self.differs(ck, sk, care)
            if stacky or f.family == "STC":
                c = self.ob.setdefault("addr", [0, 0])
                c[0] += 1
                c[1] += 1 if d == 0 else 0
            if d != 0:
                props = list(fam_props)
                if stacky:
                    props.append("C08")
                if f.family == "STC":
                    props = ["C08"]
                self.add(props, f.name, "reg", "general register ER%d after %s differs from the manual's" % (k, f.name), d, {"reg": k})
                break
        # (e) memory effects
        self.cls = "addr"
        cm = [e for e in st.eff if e[0] in ("memread", "memwrite")]
        self.count(len(cm) == len(sem.mem))
        if len(cm) != len(sem.mem):
            self.add(fam_props + ["C08"], f.name, "mem-count", "%s performs %d byte accesses, manual: %d" % (f.name, len(cm), len(sem.mem)), care)
        else:
            for i, (ce, se) in enumerate(zip(cm, sem.mem)):
                kind = "r" if ce[0] == "memread" else "w"
                if kind != se[0]:
                    self.add(fam_props + ["C08"], f.name, "mem-order", "access %d of %s is a %s, manual: %s" % (i, f.name, kind, se[0]), care)
                    break
                self.cls = "addr"
                d = self.differs(ce[1], se[1], care)
                if d != 0:
                    self.add(["C08"] + fam_props, f.name, "mem-addr", "address of byte access %d of %s differs from the manual's effective address" % (i, f.name), d, {"access": i})
                    break
                if kind == "r":
                    if ce[2] != se[2]:
                        self.add(["ENGINE"], f.name, "mem-var", "read variable mismatch", care)
                elif se[2] is not None and "mem-value" not in sem.unchecked and sem_checks:
                    self.cls = semcls
                    d = self.differs(ce[2], se[2], care)
                    if d != 0:
                        self.add(fam_props, f.name, "mem-value", "value stored by byte access %d of %s differs from the manual's" % (i, f.name), d, {"access": i})
                        break
        # (f) cost terms
        self.cls = "cost"
        if "cost" not in sem.unchecked:
            cc = [e for e in st.eff if e[0] == "cost"]
            # a term with a count of zero costs nothing and accesses nothing
            remaining = [e for e in cc if const_under(e[2], care) != 0]
            for (kind, n, addr) in sem.costs:
                found = None
                near = None
                for e in remaining:
                    if e[1] != kind:
                        continue
                    nn = const_under(e[2], care)
                    if nn != n:
                        near = near or ("count", e)
                        continue
                    if kind == "N":
                        found = e
                        break
                    if addr is None:
                        if e[3] is None:
                            found = e
                            break
                        near = ("addr", e)
                        continue
                    if e[3] is None:
                        near = ("addr", e)
                        continue
                    if self.differs(e[3], addr, care) == 0:
                        found = e
                        break
                    near = ("addr", e)
                self.count(found is not None)
                if found is not None:
                    remaining.remove(found)
                else:
                    why = "missing"
                    dcond = care
                    if near:
                        why = "wrong " + near[0]
                        if near[0] == "addr" and near[1][3] is not None and addr is not None:
                            dd = self.differs(near[1][3], addr, care)
                            if dd != 0:
                                dcond = dd
                    self.add(["C20"], f.name, "cost:%s%d" % (kind, n), "%s: cost term %s x%d (%s) %s" % (f.name, kind, n, "own PC" if addr is None else "operand address", why), dcond)
            for e in remaining:
                self.count(False)
                nn = const_under(e[2], care)
                self.add(["C20"], f.name, "cost-extra:%s%s" % (e[1], nn), "%s: extra cost term %s x%s not in the manual" % (f.name, e[1], nn), care)
            # (g) returned charge is the sum of the cost terms
            tot = bv.const(0, 8)
            for e in cc:
                tot = bv.add(tot, e[4])
            rv = val.fields[0]
            if isinstance(rv, Int):
                d = self.differs(rv.bits, tot, care)
                if d != 0:
                    self.add(["C20"], f.name, "charge-sum", "%s: returned charge is not the sum of its cost terms" % f.name, d)
            else:
                self.count(False)
                self.add(["C20"], f.name, "charge-opaque", "%s: returned charge not analysable" % f.name, care)
