"""Type-driven symbolic values: the most general value of a type (used to havoc locals at
loop headers and to give unmodelled callees a typed, fully unconstrained result)."""
import bv
from interp import Agg, Enum, Int, Opaque, Ref, SymEnum, UNIT
import strmodel

_counter = [0]


def reset():
    _counter[0] = 0


def fresh_name(base):
    _counter[0] += 1
    return "%s#%d" % (base, _counter[0])


def alternatives(ip, st, tid, name, depth=0):
    """list of (value, post-hook or None): every shape the type can have (enums fork)"""
    t = ip.types[tid]
    k = t["k"]
    if k in ("int", "bool", "char"):
        w = ip.int_info(tid)[0]
        return [(Int(bv.seq_bv(name, w)), None)]
    if k == "tuple":
        if not t["of"]:
            return [(UNIT, None)]
        return product(ip, st, [(ft, "%s.%d" % (name, i)) for i, ft in enumerate(t["of"])], lambda fs: Agg(fs), depth)
    if k == "adt":
        if t["path"] in ("std::string::String",):
            return [(strmodel.S((name,)), None)]
        if t["path"].startswith("std::vec::Vec"):
            return [(Opaque("vec", (name, t["args"][0] if t["args"] else None)), None)]
        if "variants" in t and depth < 4:
            if t.get("adt") == "enum" and all(not v["fields"] for v in t["variants"]):
                # field-less enum: one value with a symbolic discriminant restricted to the declared ones
                bits = bv.seq_bv(name, 64)
                valid = 0
                for v in t["variants"]:
                    valid = bv.M.OR(valid, bv.eq(bits, bv.const(int(v["discr"]) & ((1 << 64) - 1), 64)))

                def constrain(s, valid=valid):
                    s.pc = bv.M.AND(s.pc, valid)
                return [(SymEnum(bits), constrain)]
            if t.get("adt") == "enum":
                out = []
                for vi, v in enumerate(t["variants"]):
                    alts = product(ip, st, [(f["ty"], "%s.%s.%s" % (name, v["n"], f["n"])) for f in v["fields"]], lambda fs, vi=vi: Enum(vi, fs), depth)
                    out.extend(alts)
                return out
            v = t["variants"][0]
            return product(ip, st, [(f["ty"], "%s.%s" % (name, f["n"])) for f in v["fields"]], lambda fs: Agg(fs), depth)
        return [(Opaque("sym:" + t["path"].split("::")[-1], name), None)]
    if k in ("ref", "ptr"):
        tt = ip.types[t["to"]]
        if tt["k"] == "str":
            return [(strmodel.S((name,)), None)]
        if tt["k"] == "slice":
            return [(Opaque("slice", (name, None, None)), None)]
        out = []
        for val, hook in alternatives(ip, st, t["to"], name, depth + 1):
            root = ("sym", fresh_name(name))

            def mk(s, root=root, val=val, hook=hook):
                s.mem[root] = val
                if hook:
                    hook(s)
            out.append((Ref(root, ()), mk))
        return out
    return [(Opaque("sym:" + k, name), None)]


def product(ip, st, fields, build, depth):
    """cartesian product of the field alternatives (enums inside structs fork)"""
    acc = [([], [])]
    for ft, nm in fields:
        alts = alternatives(ip, st, ft, nm, depth + 1)
        nacc = []
        for vals, hooks in acc:
            for v, h in alts:
                nacc.append((vals + [v], hooks + ([h] if h else [])))
        acc = nacc
        if len(acc) > 64:
            # too many shapes: keep the first alternative of the remaining fields opaque
            break
    out = []
    for vals, hooks in acc:
        while len(vals) < len(fields):
            vals.append(Opaque("sym-cut"))

        def hk(s, hooks=hooks):
            for h in hooks:
                h(s)
        out.append((build(vals), hk if hooks else None))
    return out


def outcomes(ip, st, tid, name):
    """outcome list for Interp._dispatch_outcomes: one non-deterministic alternative per shape"""
    alts = alternatives(ip, st, tid, name)
    return [(None, v, h) if h else (None, v) for v, h in alts]
