"""Bit-vector operations over BDD bits (LSB first tuples of BDD nodes)."""
from bdd import BDD

M = BDD()


def reset():
    global M
    M = BDD()
    _uf.clear()
    _slots.clear()
    decode_ranks.clear()
    _seq_slots.clear()
    return M


# ------------------------------------------------------------------ variables
# rank layout (smaller = nearer the root):
#   0..15         first instruction word W0, MSB first (decode control)
#   100..999      fresh control booleans (primitive success flags ...)
#   1000..1999    cost multipliers
#   2000..2007    ccr
#   10000+        data, interleaved modulo 8:  10000 + (bit%8)*262144 + slot*8 + bit//8
_slots = {}
decode_ranks = set()   # ranks of instruction-word variables (decode decisions are never merged)


def slot(name):
    s = _slots.get(name)
    if s is None:
        s = len(_slots)
        _slots[name] = s
    return s


def data_var(name, bit):
    sl = slot(name if bit < 64 else "%s#%d" % (name, bit // 64))
    rank = 10000 + (bit % 8) * 262144 + sl * 8 + ((bit % 64) // 8)
    return M.newvar(rank, "%s.%d" % (name, bit))


def data_bv(name, width):
    return tuple(data_var(name, i) for i in range(width))


_seq_slots = {}


def seq_bv(name, width):
    """variables ordered bit-sequentially (bit i of every such variable at level i): the
    right order for wide (64-bit) counters that are added and compared"""
    s = _seq_slots.get(name)
    if s is None:
        s = len(_seq_slots)
        _seq_slots[name] = s
    return tuple(M.newvar(5000000 + i * 4096 + s, "%s.%d" % (name, i)) for i in range(width))


def w0_bv():
    decode_ranks.update(range(16))
    return tuple(M.newvar(15 - i, "w0.%d" % i) for i in range(16))


def word_bv(k):
    if k == 0:
        return w0_bv()
    v = data_bv("w%d" % k, 16)
    for b in v:
        decode_ranks.add(M.var[b])
    return v


def top_bv(name, width, base_rank):
    """variables placed near the root, MSB first (for values that act as selectors / are
    compared with constants: addresses, indices); base_rank in 16..99-width"""
    assert 16 <= base_rank and base_rank + width <= 100
    return tuple(M.newvar(base_rank + (width - 1 - i), "%s.%d" % (name, i)) for i in range(width))


def ctl_var(name, idx):
    if idx >= 880:
        raise RuntimeError("more than 880 control variables on one trace: a loop the interpreter does not bound (unmodelled iterator?)")
    return M.newvar(100 + idx, "c%d" % idx)


def cost_bv(idx, width=4):
    return tuple(M.newvar(1000 + idx * 8 + i, "k%d.%d" % (idx, i)) for i in range(width))


def ccr_bv():
    return tuple(M.newvar(2000 + i, "ccr.%d" % i) for i in range(8))


# ------------------------------------------------------------------ basics
def const(v, w):
    return tuple((v >> i) & 1 for i in range(w))


def is_const(a):
    for b in a:
        if b > 1:
            return False
    return True


def to_int(a):
    v = 0
    for i, b in enumerate(a):
        if b > 1:
            return None
        v |= b << i
    return v


def zext(a, w):
    if len(a) >= w:
        return a[:w]
    return a + (0,) * (w - len(a))


def sext(a, w):
    if len(a) >= w:
        return a[:w]
    return a + (a[-1],) * (w - len(a))


def cast(a, w, signed_src):
    if len(a) >= w:
        return a[:w]
    return sext(a, w) if signed_src else zext(a, w)


def NOT(a):
    return tuple(M.NOT(x) for x in a)


def AND(a, b):
    return tuple(M.AND(x, y) for x, y in zip(a, b))


def OR(a, b):
    return tuple(M.OR(x, y) for x, y in zip(a, b))


def XOR(a, b):
    return tuple(M.XOR(x, y) for x, y in zip(a, b))


def ite(c, a, b):
    if c == 1:
        return a
    if c == 0:
        return b
    return tuple(M.ITE(c, x, y) for x, y in zip(a, b))


def add_c(a, b, cin=0):
    """returns (sum bits, carries) where carries[i] is the carry OUT of bit i."""
    out = []
    carries = []
    c = cin
    for x, y in zip(a, b):
        xy = M.XOR(x, y)
        out.append(M.XOR(xy, c))
        c = M.OR(M.AND(x, y), M.AND(c, xy))
        carries.append(c)
    return tuple(out), tuple(carries)


def add(a, b, cin=0):
    return add_c(a, b, cin)[0]


def sub_c(a, b, bin_=0):
    """a - b - bin; returns (diff, borrows) where borrows[i] is the borrow OUT of bit i."""
    s, c = add_c(a, NOT(b), M.NOT(bin_))
    return s, tuple(M.NOT(x) for x in c)


def sub(a, b):
    return sub_c(a, b)[0]


def neg(a):
    return sub(const(0, len(a)), a)


def eq(a, b):
    r = 1
    for x, y in zip(a, b):
        r = M.AND(r, M.NOT(M.XOR(x, y)))
        if r == 0:
            break
    return r


def ult(a, b):
    """unsigned a < b"""
    return sub_c(a, b)[1][-1]


def ule(a, b):
    return M.NOT(ult(b, a))


def slt(a, b):
    w = len(a)
    a2 = a[:-1] + (M.NOT(a[-1]),)
    b2 = b[:-1] + (M.NOT(b[-1]),)
    return ult(a2, b2)


def sle(a, b):
    return M.NOT(slt(b, a))


def is_zero(a):
    r = 1
    for x in a:
        r = M.AND(r, M.NOT(x))
    return r


def shl_const(a, n):
    w = len(a)
    if n >= w:
        return (0,) * w
    return (0,) * n + a[: w - n]


def lshr_const(a, n):
    w = len(a)
    if n >= w:
        return (0,) * w
    return a[n:] + (0,) * n


def ashr_const(a, n):
    w = len(a)
    if n >= w:
        return (a[-1],) * w
    return a[n:] + (a[-1],) * n


def _amount_bits(w):
    k = 0
    while (1 << k) < w:
        k += 1
    return k


def shl(a, amt):
    """MIR Shl: amount taken modulo the bit width (overflow is asserted separately)."""
    k = _amount_bits(len(a))
    r = a
    for i in range(min(k, len(amt))):
        r = ite(amt[i], shl_const(r, 1 << i), r)
    return r


def lshr(a, amt):
    k = _amount_bits(len(a))
    r = a
    for i in range(min(k, len(amt))):
        r = ite(amt[i], lshr_const(r, 1 << i), r)
    return r


def ashr(a, amt):
    k = _amount_bits(len(a))
    r = a
    for i in range(min(k, len(amt))):
        r = ite(amt[i], ashr_const(r, 1 << i), r)
    return r


def shift_overflows(a_width, amt):
    """amt >= width (unsigned)"""
    return M.NOT(ult(amt, const(a_width, len(amt)))) if a_width < (1 << len(amt)) else 0


def mul(a, b):
    """Wrapping multiply by shift-add; exact (use only when one side is constant or operands are narrow)."""
    w = len(a)
    acc = const(0, w)
    for i in range(w):
        if b[i] == 0:
            continue
        part = shl_const(a, i)
        if b[i] != 1:
            part = tuple(M.AND(x, b[i]) for x in part)
        acc = add(acc, part)
    return acc


def eff_width(a):
    """width after stripping constant-zero high bits"""
    n = len(a)
    while n > 0 and a[n - 1] == 0:
        n -= 1
    return n


def nonconst_bits(a):
    return sum(1 for x in a if x > 1)


# ------------------------------------------------- uninterpreted functions
_uf = {}


def uf(op, width, *operands):
    """Uninterpreted function application: the same (op, operand vectors) always
    yields the same fresh variables, so two computations of the same value compare
    equal and different ones do not."""
    key = (op, width) + tuple(operands)
    r = _uf.get(key)
    if r is None:
        idx = len(_uf)
        r = data_bv("uf%d_%s" % (idx, op), width)
        _uf[key] = r
    return r


def uf_table():
    return dict(_uf)


def value_set(b, limit=16, max_vars=12):
    """the values a small symbolic vector can take, with their conditions: [(value, cond)] or None"""
    sup = set()
    for x in b:
        M.support(x, sup, set())
    sup = sorted(sup)
    if len(sup) > max_vars:
        return None
    vals = {}
    for m in range(1 << len(sup)):
        env = {r: (m >> i) & 1 for i, r in enumerate(sup)}
        v = 0
        for i, x in enumerate(b):
            if M.eval(x, env):
                v |= 1 << i
        if v not in vals:
            if len(vals) >= limit:
                return None
            vals[v] = eq(b, const(v, len(b)))
    return sorted(vals.items())


def _expand(op, a, b):
    vs = value_set(b)
    if vs is None:
        return None
    w = len(a)
    res = const(0, w)
    for v, c in vs:
        if v == 0:
            continue
        r = op(a, const(v, len(b)))
        res = tuple(M.OR(x, M.AND(c, y)) for x, y in zip(res, r))
    return res


def udiv(a, b):
    """unsigned division; constant divisor power of two handled exactly"""
    bi = to_int(b)
    w = len(a)
    if bi is None:
        r = _expand(udiv, a, b)
        if r is not None:
            return r
    if bi is not None and bi > 0 and (bi & (bi - 1)) == 0:
        return lshr_const(a, bi.bit_length() - 1)
    ai = to_int(a)
    if ai is not None and bi is not None and bi != 0:
        return const(ai // bi, w)
    ea = a[: eff_width(a)]
    eb = b[: eff_width(b)]
    q = uf("udiv", max(len(ea), 1), ea, eb)
    return zext(q, w)


def urem(a, b):
    bi = to_int(b)
    w = len(a)
    if bi is None:
        r = _expand(urem, a, b)
        if r is not None:
            return r
    if bi is not None and bi > 0 and (bi & (bi - 1)) == 0:
        k = bi.bit_length() - 1
        return a[:k] + (0,) * (w - k)
    ai = to_int(a)
    if ai is not None and bi is not None and bi != 0:
        return const(ai % bi, w)
    ea = a[: eff_width(a)]
    eb = b[: eff_width(b)]
    r = uf("urem", max(len(eb), 1), ea, eb)
    return zext(r, w)


def umul_wide(a, b):
    """a * b wrapping at len(a); exact when cheap, otherwise uninterpreted (canonical in trimmed, sorted operands)."""
    w = len(a)
    if is_const(a) or is_const(b) or nonconst_bits(a) + nonconst_bits(b) <= 10 or min(nonconst_bits(a), nonconst_bits(b)) <= 2:
        return mul(a, b) if not is_const(a) else mul(b, a)
    ea = a[: eff_width(a)]
    eb = b[: eff_width(b)]
    ops = tuple(sorted([ea, eb]))
    full = len(ea) + len(eb)
    p = uf("umul", full, *ops)
    return zext(p, w) if full <= w else p[:w]


def fmt(a):
    v = to_int(a)
    if v is not None:
        return "0x%x/%d" % (v, len(a))
    parts = []
    for i in reversed(range(len(a))):
        b = a[i]
        if b == 0:
            parts.append("0")
        elif b == 1:
            parts.append("1")
        else:
            nm = None
            if M.lo[b] == 0 and M.hi[b] == 1:
                nm = M.names.get(M.var[b])
            elif M.lo[b] == 1 and M.hi[b] == 0:
                nm = "!" + M.names.get(M.var[b], "?")
            parts.append("<%s>" % nm if nm else "*")
    return "[" + " ".join(parts) + "]"
