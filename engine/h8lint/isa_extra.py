"""Validation of the primitive summaries the instruction-level analysis relies on
(Cpu::fetch) and of the interrupt-entry sequence (Cpu::interrupt), by analysing
their real bodies with the same abstract interpreter."""
import bv
import spec
import isa as isamod
import isacheck
import models
from interp import Enum, Int, Ref, Opaque


def _cmp(findings, count, name, a, b, care, props, what):
    Mx = bv.M
    d = 0
    if a != b:
        for x, y in zip(a, b):
            if x != y:
                di = Mx.AND(Mx.XOR(x, y), care)
                if di != 0:
                    d = di
                    break
    count(d == 0)
    if d != 0:
        w = isacheck.group_witness(Mx.describe_assign(Mx.sat_one(d)))
        findings.append({"props": props, "key": "%s|%s" % (name, what), "form": name, "aspect": what,
                         "msg": "%s: %s differs from the reference" % (name, what), "witness": w, "detail": {}})


def check_fetch(facts):
    """Cpu::fetch must behave as the summary used for it: reads the two bytes at PC&~1
    big-endian, returns them as one word, advances PC by 2, records operating_pc."""
    bv.reset()
    I = isamod.Isa(facts)
    ip = I.make_interp()
    del ip.primitives[I.k_fetch]
    cpu = I.fresh_cpu()
    if "fetch_fault" in I.fi:
        fs_ = list(cpu.fields)
        fs_[I.fi["fetch_fault"]] = Enum(models.NONE, [])
        from interp import Agg
        cpu = Agg(fs_)
    outs = ip.run_all(I.k_fetch, [Ref(isamod.CPU_ROOT, ())], {isamod.CPU_ROOT: cpu})
    if ip.unknown_callees:
        raise RuntimeError("fetch: unmodelled callees %r" % ip.unknown_callees)
    findings = []
    ob = [0, 0]

    def count(ok):
        ob[0] += 1
        ob[1] += 1 if ok else 0
    pc0 = bv.data_bv("pc", 24) + (0,) * 8
    # precondition: PC inside mapped memory with room for one word
    pre = bv.ule(pc0, bv.const(0xFFFFE8, 32))
    nret = 0
    for o in outs:
        if any(t_ in o.state.tags for t_ in ("opaque-switch", "opaque-assert", "unknown-callee", "unwrap-opaque")):
            raise RuntimeError("imprecise trace (%r): not decidable" % (o.state.tags,))
        care = bv.M.AND(o.state.pc, pre)
        if care == 0:
            continue
        if o.kind == "panic":
            k = o.info.get("kind")
            findings.append({"props": ["C15"], "key": "fetch|panic:%s" % k, "form": "fetch", "aspect": "panic:%s" % k,
                             "msg": "instruction fetch panics (%s) instead of reporting an error (line %s)" % (k, o.info.get("line")),
                             "witness": isacheck.group_witness(bv.M.describe_assign(bv.M.sat_one(care))), "detail": {"line": o.info.get("line")}})
            continue
        if o.kind != "return":
            continue
        st = o.state
        if "prim-failed" in st.tags:
            # a fetch from unmapped memory must leave a trace that run() turns into an error
            ok = "fetch_fault" in I.fi
            if ok:
                ff = st.mem[isamod.CPU_ROOT].fields[I.fi["fetch_fault"]]
                ok = isinstance(ff, Enum) and ff.variant == models.SOME
            count(ok)
            if not ok:
                findings.append({"props": ["C15", "C13"], "key": "fetch|fault-not-recorded", "form": "fetch", "aspect": "fault-not-recorded",
                                 "msg": "a failing instruction fetch neither panics nor records a fault: execution would continue silently", "witness": None, "detail": {}})
            continue
        nret += 1
        reads = [e for e in st.eff if e[0] == "memread"]
        count(len(reads) == 2)
        if len(reads) != 2:
            findings.append({"props": ["C07", "C01"], "key": "fetch|reads", "form": "fetch", "aspect": "reads", "msg": "fetch performs %d byte reads" % len(reads), "witness": None, "detail": {}})
            continue
        a0 = (0,) + pc0[1:]
        _cmp(findings, count, "fetch", reads[0][1], a0, care, ["C07", "C01"], "address of first byte")
        _cmp(findings, count, "fetch", reads[1][1], bv.add(a0, bv.const(1, 32)), care, ["C07", "C01"], "address of second byte")
        if isinstance(o.value, Int):
            _cmp(findings, count, "fetch", o.value.bits, reads[1][2] + reads[0][2], care, ["C07", "C01"], "big-endian word")
        else:
            count(False)
        cpuv = st.mem[isamod.CPU_ROOT]
        _cmp(findings, count, "fetch", cpuv.fields[I.fi["pc"]].bits, bv.add(pc0, bv.const(2, 32)), care, ["C07", "C01"], "PC advance")
        _cmp(findings, count, "fetch", cpuv.fields[I.fi["operating_pc"]].bits, a0, care, ["C20"], "operating_pc")
        _cmp(findings, count, "fetch", cpuv.fields[I.fi["ccr"]].bits, bv.ccr_bv(), care, ["C07", "C01"], "CCR untouched")
    return {"findings": findings, "ob": ob, "returns": nret, "traces": len(outs)}


def check_interrupt(facts):
    """Cpu::interrupt(vector) against the manual's exception-entry sequence (C06)."""
    bv.reset()
    I = isamod.Isa(facts)
    ip = I.make_interp()
    key = facts.body("interrupt")["key"] if len(facts.find("interrupt")) == 1 else [k for k in facts.find("interrupt") if "impl cpu::Cpu" in k][0]
    cpu = I.fresh_cpu()
    vec = bv.data_bv("vec", 8)
    outs = ip.run_all(key, [Ref(isamod.CPU_ROOT, ()), Int(vec)], {isamod.CPU_ROOT: cpu})
    spec.build()
    pc0 = bv.data_bv("pc", 24) + (0,) * 8
    ccr0 = bv.ccr_bv()
    dummy = spec.Form("interrupt entry", ["0000000000000000"], "IRQ", "C06", None)
    sem = spec.Sem(ip, dummy, pc0, ccr0)
    sem.pc_next = pc0
    vaddr = bv.zext((0, 0) + tuple(vec), 32)
    spec.exception_entry(sem, vaddr, pc0)
    pre = bv.M.AND(bv.ule(bv.const(1, 8), vec), bv.ule(vec, bv.const(63, 8)))
    findings = []
    ob = [0, 0]

    def count(ok):
        ob[0] += 1
        ob[1] += 1 if ok else 0
    nok = 0
    for o in outs:
        if any(t_ in o.state.tags for t_ in ("opaque-switch", "opaque-assert", "unknown-callee", "unwrap-opaque")):
            raise RuntimeError("imprecise trace (%r): not decidable" % (o.state.tags,))
        care = bv.M.AND(o.state.pc, pre)
        if care == 0:
            continue
        if o.kind == "panic":
            k = "%s:%s" % (o.info.get("kind"), o.info["fn"].split("::")[-1])
            findings.append({"props": ["C15"], "key": "interrupt entry|panic:%s" % k, "form": "interrupt entry", "aspect": "panic:" + k,
                             "msg": "interrupt entry panics (%s, line %s)" % (k, o.info.get("line")),
                             "witness": isacheck.group_witness(bv.M.describe_assign(bv.M.sat_one(care))), "detail": {}})
            continue
        if o.kind != "return" or not isinstance(o.value, Enum) or o.value.variant != models.OK:
            continue
        nok += 1
        st = o.state
        cpuv = st.mem[isamod.CPU_ROOT]
        _cmp(findings, count, "interrupt entry", cpuv.fields[I.fi["pc"]].bits, sem.pc, care, ["C06"], "PC (vector contents, low 24 bits)")
        ccr = cpuv.fields[I.fi["ccr"]].bits
        for i in range(8):
            if i == spec.UI:
                continue
            _cmp(findings, count, "interrupt entry", (ccr[i],), (sem.ccr[i],), care, ["C06"], "CCR." + spec.FLAG_NAMES[i])
        carr = cpuv.fields[I.fi["er"]]
        for k in range(8):
            _cmp(findings, count, "interrupt entry", ip.arr_read(carr, bv.const(k, 3)), ip.arr_read(sem.regs, bv.const(k, 3)), care, ["C06", "C08"], "ER%d" % k)
        cm = [e for e in st.eff if e[0] in ("memread", "memwrite")]
        count(len(cm) == len(sem.mem))
        if len(cm) == len(sem.mem):
            for i, (ce, se) in enumerate(zip(cm, sem.mem)):
                _cmp(findings, count, "interrupt entry", ce[1], se[1], care, ["C06", "C08"], "address of byte access %d" % i)
                if ce[0] == "memwrite":
                    _cmp(findings, count, "interrupt entry", ce[2], se[2], care, ["C06"], "frame byte %d" % i)
        else:
            findings.append({"props": ["C06", "C10"], "key": "interrupt entry|mem-count", "form": "interrupt entry", "aspect": "mem-count",
                             "msg": "interrupt entry performs %d byte accesses, manual: %d" % (len(cm), len(sem.mem)), "witness": None, "detail": {}})
    return {"findings": findings, "ob": ob, "ok_traces": nok, "traces": len(outs), "cost_sites": I.cost_sites}


# (name suffix, operand address width, size in bytes, 'r'/'w')
ACCESS_HELPERS = [(("read" if k == "r" else "write") + "_abs%d_%s" % (w, s), w, n, k)
                  for w in (8, 16, 24) for (s, n) in (("b", 1), ("w", 2), ("l", 4)) for k in ("r", "w")]


def check_access_helpers(facts):
    """C09, composition clause: every CPU access helper read/write_abs{8,16,24}_{b,w,l} performs
    exactly `size` byte accesses through Bus::read / Bus::write, byte i at EA+i (EA = the manual's
    expansion of the 8/16/24-bit absolute address, 32-bit wrapping), most significant byte first;
    a read returns the big-endian composition of the bytes read; the result is Ok iff every byte
    access succeeded and the helper stops at the first failing byte.  Decided for all operand
    addresses and values by analysing the real bodies over the bus primitives."""
    findings = []
    ob = [0, 0]
    analysed = []

    def count(ok):
        ob[0] += 1
        ob[1] += 1 if ok else 0

    def add(name, what, msg, cond=None):
        w = isacheck.group_witness(bv.M.describe_assign(bv.M.sat_one(cond))) if cond not in (None, 0, 1) else None
        findings.append({"props": ["C09"], "key": "%s|%s" % (name, what), "form": name, "aspect": what, "msg": "%s: %s" % (name, msg), "witness": w, "detail": {}})

    for (name, aw, size, kind) in ACCESS_HELPERS:
        cands = [k for k in facts.find(name) if "impl cpu::Cpu" in k or k.startswith("cpu::")]
        if len(cands) != 1:
            add(name, "anchor", "helper not found (%d candidates): the access helpers of the CPU changed, the composition rule cannot be applied" % len(cands))
            count(False)
            continue
        bv.reset()
        I = isamod.Isa(facts)
        ip = I.make_interp()
        cpu = I.fresh_cpu()
        body = facts.bodies[cands[0]]
        argw = 32 if aw == 24 else aw
        a = bv.top_bv("a", argw, 16)
        if aw == 8:
            ea = tuple(a) + bv.const(0xFFFF, 16) + (0,) * 8
        elif aw == 16:
            ea = tuple(a) + (a[15],) * 8 + (0,) * 8
        else:
            ea = tuple(a)
        args = [Ref(isamod.CPU_ROOT, ()), Int(a)]
        val = None
        if kind == "w":
            val = bv.data_bv("v", 8 * size)
            args.append(Int(val))
        outs = ip.run_all(body["key"], args, {isamod.CPU_ROOT: cpu})
        if ip.unknown_callees:
            raise RuntimeError("%s: unmodelled callees %r" % (name, ip.unknown_callees))
        analysed.append(name)
        total = 0
        nok = 0
        for o in outs:
            if any(t_ in o.state.tags for t_ in ("opaque-switch", "opaque-assert", "unknown-callee", "unwrap-opaque")):
                raise RuntimeError("imprecise trace (%r): not decidable" % (o.state.tags,))
            care = o.state.pc
            if care == 0:
                continue
            total = bv.M.OR(total, care)
            if o.kind == "panic":
                add(name, "panic:%s" % o.info.get("kind"), "can panic (%s, line %s)" % (o.info.get("kind"), o.info.get("line")), care)
                count(False)
                continue
            if o.kind != "return":
                add(name, "outcome:" + o.kind, "unexpected outcome %s" % o.kind, care)
                count(False)
                continue
            st = o.state
            acc = [e for e in st.eff if e[0] in ("memread", "memwrite", "memread_fail", "memwrite_fail")]
            okres = isinstance(o.value, Enum) and o.value.variant == models.OK
            failed = [e for e in acc if e[0].endswith("_fail")]
            good = [e for e in acc if not e[0].endswith("_fail")]
            # shape: size successful accesses and Ok, or k < size successes, one failure, Err
            shape = (okres and not failed and len(good) == size) or \
                    ((not okres) and len(failed) == 1 and acc[-1] is failed[0] and len(good) < size)
            count(shape)
            if not shape:
                add(name, "shape", "%s result after %d successful and %d failing byte accesses (a %d-byte access must make %d byte accesses, fail at the first inaccessible byte and succeed otherwise)"
                    % ("Ok" if okres else "Err", len(good), len(failed), size, size), care)
                continue
            bad = False
            for i, e in enumerate(acc):
                want = "memread" if kind == "r" else "memwrite"
                if not e[0].startswith(want):
                    add(name, "direction", "byte access %d is a %s" % (i, e[0]), care)
                    count(False)
                    bad = True
                    break
                n0 = len(findings)
                _cmp(findings, count, name, e[1], bv.add(ea, bv.const(i, 32)), care, ["C09"], "address of byte %d (must be EA+%d)" % (i, i))
                if e[0] == "memwrite":
                    hi = 8 * (size - i)
                    _cmp(findings, count, name, e[2], val[hi - 8:hi], care, ["C09"], "value of byte %d (big-endian: bits %d..%d of the operand)" % (i, hi - 1, hi - 8))
                if len(findings) != n0:
                    bad = True
                    break
            if bad or not okres:
                continue
            nok += 1
            if kind == "r":
                if isinstance(o.value.fields[0], Int):
                    comp = ()
                    for e in acc:
                        comp = tuple(e[2]) + comp
                    _cmp(findings, count, name, o.value.fields[0].bits, comp, care, ["C09"], "result (big-endian composition of the bytes read)")
                else:
                    count(False)
                    add(name, "result", "result is not a function of the bytes read", care)
            cpuv = st.mem[isamod.CPU_ROOT]
            _cmp(findings, count, name, cpuv.fields[I.fi["pc"]].bits, bv.data_bv("pc", 24) + (0,) * 8, care, ["C09"], "PC untouched")
        aux = set(r for r in bv.M.support(total) if 100 <= r < 2000)
        complete = bv.M.exists(total, aux) == 1
        clean = not any(f_["form"] == name for f_ in findings)
        count(complete and (nok >= 1 or not clean))
        if not complete or (nok == 0 and clean):
            add(name, "coverage", "the analysed traces do not cover every operand (or none succeeds)")
    return {"findings": findings, "ob": ob, "helpers": analysed}
