"""Models of the nom combinators used by the ELF parsers: the input is an abstract cursor
(offset into the region being parsed); integer parsers yield the variables that stand for
the big-endian field at that offset."""
import re
import bv
import models
from interp import Agg, Enum, Int, Opaque, Ref, UNIT

_INTP = re.compile(r"^nom::number::complete::(be_u|le_u|u)(8|16|32|64)$")


def cur(off):
    return Opaque("cur", off)


def field_var(off, nbytes):
    return bv.seq_bv("file@%d/%d" % (off, nbytes), 8 * nbytes)


def int_parse(path, inp):
    m = _INTP.match(path)
    if not m or not (isinstance(inp, Opaque) and inp.tag == "cur"):
        return None
    n = int(m.group(2)) // 8
    endian = m.group(1)
    off = inp.data
    v = field_var(off, n)
    return cur(off + n), Int(v), endian, n


def install(ip, log):
    """log: list receiving (offset, nbytes, endian) for every integer parser applied"""
    def m_int(ip_, st, fr, t, args):
        d_ = 3
        while isinstance(args[0], Ref) and d_ > 0:
            args[0] = ip_.read_loc(st, args[0].root, args[0].path)
            d_ -= 1
        r = int_parse(t["callee"]["path"], args[0])
        if r is None:
            return None
        rest, v, endian, n = r
        log.append((args[0].data, n, endian))
        st.add_eff(("parse-int", args[0].data, n, endian))
        return Enum(models.OK, [Agg([rest, v])])

    def m_map(ip_, st, fr, t, args):
        return Opaque("nom-map", (args[0], args[1]))

    def m_count(ip_, st, fr, t, args):
        f = args[0]
        n = bv.to_int(args[1].bits) if isinstance(args[1], Int) else None
        return Opaque("nom-count", (f.data if isinstance(f, Opaque) else None, n))

    def m_tag(ip_, st, fr, t, args):
        a = args[0]
        ln = len(a.data) if isinstance(a, Opaque) and a.tag == "str" and isinstance(a.data, str) else None
        return Opaque("nom-tag", ln)

    # Parsers are applied in continuation-passing style so that combinators compose: integer parsers, parser functions of the crate
    # (followed into their bodies), tuples of parsers (applied in sequence), map(parser, function or closure), tag, count.
    # A step yields ("val", value) - the result of the whole model call - or ("call", body key, args, transform): continue in a body.
    def as_model_result(r):
        if r is None:
            return None
        if r[0] == "val":
            return r[1]
        return ("tailcall", r[1], r[2], r[3])

    def as_transform_result(r, fallback):
        if r is None:
            return fallback
        if r[0] == "val":
            return r[1]
        return [("call", None, r[1], r[2], r[3], None)]

    def body_of(ip_, path):
        for c in (path, ip_.fn_full.get(path) if path else None):
            if c in ip_.f.bodies:
                return c
        return None

    def parse(ip_, st, parser, inp, cont):
        """cont(st, rest cursor, value) -> step"""
        d_ = 3
        while isinstance(parser, Ref) and d_ > 0:
            parser = ip_.read_loc(st, parser.root, parser.path)
            d_ -= 1
        d_ = 3
        while isinstance(inp, Ref) and d_ > 0:
            inp = ip_.read_loc(st, inp.root, inp.path)
            d_ -= 1
        if not (isinstance(inp, Opaque) and inp.tag == "cur"):
            return None
        if isinstance(parser, Opaque) and parser.tag == "fn":
            r = int_parse(parser.data or "", inp)
            if r is not None:
                rest, v, endian, n = r
                log.append((inp.data, n, endian))
                st.add_eff(("parse-int", inp.data, n, endian))
                return cont(st, rest, v)
            key = body_of(ip_, parser.data)
            if key is None:
                return None

            def transform(st2, ret, cont=cont):
                if isinstance(ret, Enum) and ret.variant == models.OK and ret.fields and isinstance(ret.fields[0], Agg) and len(ret.fields[0].fields) == 2:
                    rest2, v2 = ret.fields[0].fields
                    return as_transform_result(cont(st2, rest2, v2), Opaque("nom-unfollowed"))
                return ret      # the error of the element parser is the error of the whole parser
            return ("call", key, [inp], transform)
        if isinstance(parser, Agg) and parser.fields and not (parser.tag in ip_.f.bodies if isinstance(parser.tag, str) else False) \
                and all(isinstance(x, (Opaque, Agg, Ref)) for x in parser.fields):
            fields = list(parser.fields)

            def seq(st_, i, cur_, vals):
                if i == len(fields):
                    return cont(st_, cur_, Agg(vals))
                return parse(ip_, st_, fields[i], cur_, lambda st2, rest, v, i=i, vals=vals: seq(st2, i + 1, rest, vals + [v]))
            return seq(st, 0, inp, [])
        if not isinstance(parser, Opaque):
            return None
        if parser.tag == "nom-tag" and parser.data is not None:
            st.add_eff(("parse-tag", inp.data, parser.data))
            return cont(st, cur(inp.data + parser.data), Opaque("matched"))
        if parser.tag == "nom-count":
            f, n = parser.data
            r = int_parse(f or "", inp)
            if r is not None and n is not None:
                st.add_eff(("parse-count", inp.data, n * r[3]))
                return cont(st, cur(inp.data + n * r[3]), Opaque("vec", ("counted", None)))
            return None
        if parser.tag == "nom-map":
            f, g = parser.data

            def after(st2, rest, v, g=g, cont=cont):
                if isinstance(g, Opaque) and g.tag == "fn":
                    key = body_of(ip_, g.data)      # a function of the crate (e.g. an `impl From<u32>`), resolved through its instantiation
                    if key is None:
                        return None
                    return ("call", key, [v], lambda st3, ret, rest=rest: as_transform_result(cont(st3, rest, ret), Opaque("nom-unfollowed")))
                if isinstance(g, Agg) and g.tag in ip_.f.bodies:
                    tmp = ("tmpenv", st2.count("tmpenv"))
                    st2.mem[tmp] = g
                    return ("call", g.tag, [Ref(tmp, ()), v], lambda st3, ret, rest=rest: as_transform_result(cont(st3, rest, ret), Opaque("nom-unfollowed")))
                return None
            return parse(ip_, st, f, inp, after)
        return None

    def apply(ip_, st, fr, t, parser, inp):
        return as_model_result(parse(ip_, st, parser, inp, lambda st2, rest, v: ("val", Enum(models.OK, [Agg([rest, v])]))))

    def m_parse(ip_, st, fr, t, args):
        return apply(ip_, st, fr, t, args[0], args[1])

    def m_call(ip_, st, fr, t, args):
        # Fn::call(&parser, (input,))
        inp = args[1].fields[0] if isinstance(args[1], Agg) and args[1].fields else args[1]
        return apply(ip_, st, fr, t, args[0], inp)
    ip.pattern_models.insert(0, (lambda p, f: bool(_INTP.match(p or "")), m_int))
    ip.models["nom::combinator::map"] = m_map
    ip.models["nom::multi::count"] = m_count
    ip.models["nom::bytes::complete::tag"] = m_tag
    ip.models["nom::Parser::parse"] = m_parse
    ip.pattern_models.insert(0, (lambda p, f: p.startswith("nom::") and p.endswith("{closure#0}"), m_call))
    ip.pattern_models.insert(0, (lambda p, f: p.endswith("Fn::call") or p.endswith("FnMut::call_mut") or p.endswith("FnOnce::call_once"), m_call))
