"""Models of the nom combinators used by the ELF parsers: the input is an abstract cursor
(offset into the region being parsed); integer parsers yield the variables that stand for
the big-endian field at that offset."""
import re
import bv
import models
from interp import Agg, Enum, Int, Opaque, Ref, UNIT

_INTP = re.compile(r"^nom::number::complete::(be_u|le_u|u)(8|16|32|64)$")


def cur(off):
    return Opaque("cur", off)


def field_var(off, nbytes):
    return bv.seq_bv("file@%d/%d" % (off, nbytes), 8 * nbytes)


def int_parse(path, inp):
    m = _INTP.match(path)
    if not m or not (isinstance(inp, Opaque) and inp.tag == "cur"):
        return None
    n = int(m.group(2)) // 8
    endian = m.group(1)
    off = inp.data
    v = field_var(off, n)
    return cur(off + n), Int(v), endian, n


def install(ip, log):
    """log: list receiving (offset, nbytes, endian) for every integer parser applied"""
    def m_int(ip_, st, fr, t, args):
        d_ = 3
        while isinstance(args[0], Ref) and d_ > 0:
            args[0] = ip_.read_loc(st, args[0].root, args[0].path)
            d_ -= 1
        r = int_parse(t["callee"]["path"], args[0])
        if r is None:
            return None
        rest, v, endian, n = r
        log.append((args[0].data, n, endian))
        st.add_eff(("parse-int", args[0].data, n, endian))
        return Enum(models.OK, [Agg([rest, v])])

    def m_map(ip_, st, fr, t, args):
        f = args[0]
        return Opaque("nom-map", (f.data if isinstance(f, Opaque) else None, args[1]))

    def m_count(ip_, st, fr, t, args):
        f = args[0]
        n = bv.to_int(args[1].bits) if isinstance(args[1], Int) else None
        return Opaque("nom-count", (f.data if isinstance(f, Opaque) else None, n))

    def m_tag(ip_, st, fr, t, args):
        a = args[0]
        ln = len(a.data) if isinstance(a, Opaque) and a.tag == "str" and isinstance(a.data, str) else None
        return Opaque("nom-tag", ln)

    def apply(ip_, st, fr, t, parser, inp):
        if isinstance(parser, Ref):
            parser = ip_.read_loc(st, parser.root, parser.path)
        d_ = 3
        while isinstance(inp, Ref) and d_ > 0:
            inp = ip_.read_loc(st, inp.root, inp.path)
            d_ -= 1
        if isinstance(parser, Agg) and parser.fields and all(isinstance(x, Opaque) and x.tag == "fn" for x in parser.fields) and isinstance(inp, Opaque) and inp.tag == "cur":
            # a tuple of integer parsers applied in sequence: (be_u32, be_u32, ...).parse(input)
            cur_ = inp
            vals = []
            for x in parser.fields:
                r = int_parse(x.data or "", cur_)
                if r is None:
                    return None
                rest, v, endian, n = r
                log.append((cur_.data, n, endian))
                st.add_eff(("parse-int", cur_.data, n, endian))
                vals.append(v)
                cur_ = rest
            return Enum(models.OK, [Agg([cur_, Agg(vals)])])
        if not isinstance(parser, Opaque) or not (isinstance(inp, Opaque) and inp.tag == "cur"):
            return None
        if parser.tag == "nom-tag" and parser.data is not None:
            st.add_eff(("parse-tag", inp.data, parser.data))
            return Enum(models.OK, [Agg([cur(inp.data + parser.data), Opaque("matched")])])
        if parser.tag == "nom-count":
            f, n = parser.data
            r = int_parse(f or "", inp)
            if r is not None and n is not None:
                st.add_eff(("parse-count", inp.data, n * r[3]))
                return Enum(models.OK, [Agg([cur(inp.data + n * r[3]), Opaque("vec", ("counted", None))])])
            return None
        if parser.tag == "nom-map":
            f, g = parser.data
            r = int_parse(f or "", inp)
            if r is not None and isinstance(g, Opaque) and g.tag == "fn":
                # map(parser, function item): a function of the crate (e.g. an `impl From<u32>`), resolved through its instantiation
                cands = [g.data, ip_.fn_full.get(g.data)]
                key = next((c for c in cands if c in ip_.f.bodies), None)
                if key is None:
                    return None
                rest, v, endian, n = r
                st.add_eff(("parse-int", inp.data, n, endian))

                def transform_fn(st2, ret, rest=rest):
                    return Enum(models.OK, [Agg([rest, ret])])
                return ("tailcall", key, [v], transform_fn)
            if r is None or not isinstance(g, Agg) or g.tag not in ip_.f.bodies:
                return None
            rest, v, endian, n = r
            st.add_eff(("parse-int", inp.data, n, endian))
            tmp = ("tmpenv", st.count("tmpenv"))
            st.mem[tmp] = g

            def transform(st2, ret, rest=rest):
                return Enum(models.OK, [Agg([rest, ret])])
            return ("tailcall", g.tag, [Ref(tmp, ()), v], transform)
        return None

    def m_parse(ip_, st, fr, t, args):
        return apply(ip_, st, fr, t, args[0], args[1])

    def m_call(ip_, st, fr, t, args):
        # Fn::call(&parser, (input,))
        inp = args[1].fields[0] if isinstance(args[1], Agg) and args[1].fields else args[1]
        return apply(ip_, st, fr, t, args[0], inp)
    ip.pattern_models.insert(0, (lambda p, f: bool(_INTP.match(p or "")), m_int))
    ip.models["nom::combinator::map"] = m_map
    ip.models["nom::multi::count"] = m_count
    ip.models["nom::bytes::complete::tag"] = m_tag
    ip.models["nom::Parser::parse"] = m_parse
    ip.pattern_models.insert(0, (lambda p, f: p.startswith("nom::") and p.endswith("{closure#0}"), m_call))
    ip.pattern_models.insert(0, (lambda p, f: p.endswith("Fn::call") or p.endswith("FnMut::call_mut") or p.endswith("FnOnce::call_once"), m_call))
