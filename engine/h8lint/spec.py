"""Reference semantics of the implemented H8/300H instruction forms (advanced mode),
transcribed from the H8/300H Series Programming Manual, written independently of the
emulator's source and expressed over the same abstract domain (BDD bit-vectors) so
that the summary extracted from the MIR can be compared with it for all operand
values at once.

Each form: mnemonic, encoding pattern (one 16-character string per word: 0/1 fixed
bits, letters = operand fields, '-' = bit the manual fixes but which this table
leaves unconstrained because the row is not vouched for), property family and a
semantics function over a `Sem` builder.
"""
import bv
from interp import SymArr

C, V, Z, N, U, H, UI, I = range(8)
FLAG_NAMES = ["C", "V", "Z", "N", "U", "H", "UI", "I"]
MASK24 = 0x00FFFFFF


class Form:
    def __init__(self, name, words, family, prop, sem, cycles=None, note=None):
        self.name = name
        self.words = [w.replace(" ", "") for w in words]
        for w in self.words:
            assert len(w) == 16, (name, w)
        self.family = family
        self.prop = prop
        self.sem = sem
        self.cycles = cycles
        self.note = note

    def __repr__(self):
        return "Form(%s)" % self.name


class Unimpl:
    def __init__(self, name, words):
        self.name = name
        self.words = [w.replace(" ", "") for w in words]
        for w in self.words:
            assert len(w) == 16, (name, w)


def word_vars(k):
    return bv.word_bv(k)


def pattern_cond(words):
    """BDD over the instruction-word variables: all fixed bits match"""
    c = 1
    for k, w in enumerate(words):
        wv = word_vars(k)
        for pos, ch in enumerate(w):
            bit = 15 - pos
            if ch == "0":
                c = bv.M.AND(c, bv.M.NOT(wv[bit]))
            elif ch == "1":
                c = bv.M.AND(c, wv[bit])
    return c


def pattern_fields(words, fixed=None):
    """field letter -> bit vector (LSB first), concatenating across words MSB first.
    fixed: {rank: 0/1} decode bits that are constant on the trace being compared"""
    acc = {}
    for k, w in enumerate(words):
        wv = word_vars(k)
        if fixed:
            wv = tuple(fixed.get(bv.M.var[b], b) if b > 1 else b for b in wv)
        for pos, ch in enumerate(w):
            if ch in "01-":
                continue
            acc.setdefault(ch, []).append(wv[15 - pos])
    return {ch: tuple(reversed(bits)) for ch, bits in acc.items()}


class Sem:
    """builder of the expected effect of one instruction form"""

    def __init__(self, ip, form, pc_entry, ccr0, fixed=None):
        self.ip = ip
        self.form = form
        self.f = pattern_fields(form.words, fixed)
        self.nwords = len(form.words)
        self.regs = SymArr("er", 8, 32)
        self.ccr0 = ccr0
        self.ccr = ccr0
        # pc_entry: value of PC when exec() is entered (after the first word)
        self.pc_next = bv.add(pc_entry, bv.const(2 * (self.nwords - 1), 32))
        self.pc = self.pc_next
        self.mem = []        # ('r', addr, var) | ('w', addr, val)
        self.costs = []      # (kind, n, addr or None)
        self.nread = 0
        self.assume = 1      # precondition of the property (e.g. non-zero divisor)
        self.may_err = 0     # condition under which an error return is legitimate
        self.unchecked = set()  # aspects the table does not vouch for
        self.mes = False

    # ---- registers
    def rl(self, idx3):
        return self.ip.arr_read(self.regs, tuple(idx3[:3]))

    def wl(self, idx3, val):
        self.regs = SymArr("er", 8, 32, self.regs.writes + ((tuple(idx3[:3]), tuple(val)),))

    def rw(self, idx4):
        er = self.rl(idx4[:3])
        return bv.ite(idx4[3], er[16:], er[:16])

    def ww(self, idx4, val):
        er = self.rl(idx4[:3])
        self.wl(idx4[:3], bv.ite(idx4[3], er[:16] + tuple(val), tuple(val) + er[16:]))

    def rb(self, idx4):
        er = self.rl(idx4[:3])
        return bv.ite(idx4[3], er[:8], er[8:16])

    def wb(self, idx4, val):
        er = self.rl(idx4[:3])
        self.wl(idx4[:3], bv.ite(idx4[3], tuple(val) + er[8:], er[:8] + tuple(val) + er[16:]))

    def r(self, size, idx):
        return {1: self.rb, 2: self.rw, 4: self.rl}[size](idx)

    def w(self, size, idx, val):
        return {1: self.wb, 2: self.ww, 4: self.wl}[size](idx, val)

    # ---- memory (byte accesses in ascending address order, big-endian composition)
    def mr8(self, addr):
        v = bv.data_bv("m%d" % self.nread, 8)
        self.nread += 1
        self.mem.append(("r", tuple(addr), v))
        return v

    def mw8(self, addr, val):
        self.mem.append(("w", tuple(addr), None if val is None else tuple(val)))

    def mr(self, size, addr):
        out = ()
        for i in range(size):
            a = bv.add(addr, bv.const(i, 32)) if i else addr
            out = self.mr8(a) + out
        return out

    def mw(self, size, addr, val):
        for i in range(size):
            a = bv.add(addr, bv.const(i, 32)) if i else addr
            hi = 8 * (size - i)
            self.mw8(a, val[hi - 8:hi])

    # ---- effective addresses (32-bit vectors whose top byte is zero)
    def ea_ern(self, idx3):
        return self.rl(idx3)[:24] + (0,) * 8

    def ea_disp(self, idx3, disp):
        """disp: 16 or 24 bit field, sign extended, added modulo 2^24"""
        d = bv.sext(disp, 32)
        return bv.add(self.rl(idx3), d)[:24] + (0,) * 8

    def ea_abs8(self, aa):
        return tuple(aa) + bv.const(0xFFFF, 16) + (0,) * 8

    def ea_abs16(self, aa):
        return bv.sext(aa, 24) + (0,) * 8

    def ea_abs24(self, aa):
        return tuple(aa[:24]) + (0,) * 8

    # ---- flags
    def flag(self, i):
        return self.ccr0[i]

    def set_flag(self, i, b):
        c = list(self.ccr)
        c[i] = b
        self.ccr = tuple(c)

    def nz(self, val):
        self.set_flag(N, val[-1])
        self.set_flag(Z, bv.is_zero(val))

    def cost(self, kind, n, addr=None):
        self.costs.append((kind, n, None if addr is None else tuple(addr)))


# =====================================================================
# semantics
# =====================================================================
def bits_of(size):
    return 8 * size


def mov_flags(s, v):
    s.nz(v)
    s.set_flag(V, 0)


DATA_KIND = {1: "L", 2: "M", 4: "M"}
DATA_N = {1: 1, 2: 1, 4: 2}


def sem_mov_imm(size, icycles):
    def f(s):
        v = s.f["i"]
        s.w(size, s.f["d"], v)
        mov_flags(s, v)
        s.cost("I", icycles)
    return f


def sem_mov_rr(size):
    def f(s):
        v = s.r(size, s.f["s"])
        s.w(size, s.f["d"], v)
        mov_flags(s, v)
        s.cost("I", 1)
    return f


def sem_mov_load(size, mode, icycles):
    def f(s):
        post = False
        if mode == "ern":
            ea = s.ea_ern(s.f["s"])
        elif mode == "disp":
            ea = s.ea_disp(s.f["s"], s.f["x"])
        elif mode == "inc":
            ea = s.ea_ern(s.f["s"])
            post = True
        elif mode == "abs8":
            ea = s.ea_abs8(s.f["a"])
        elif mode == "abs16":
            ea = s.ea_abs16(s.f["a"])
        elif mode == "abs24":
            ea = s.ea_abs24(s.f["a"])
        v = s.mr(size, ea)
        if post:
            # the data register does not overlap the address register (property precondition)
            s.assume = bv.M.AND(s.assume, bv.M.NOT(bv.eq(s.f["s"][:3], s.f["d"][:3])))
            s.wl(s.f["s"], bv.add(s.rl(s.f["s"]), bv.const(size, 32)))
        s.w(size, s.f["d"], v)
        mov_flags(s, v)
        s.cost("I", icycles)
        s.cost(DATA_KIND[size], DATA_N[size], ea)
        if post:
            s.cost("N", 2)
    return f


def sem_mov_store(size, mode, icycles):
    def f(s):
        v = s.r(size, s.f["s"])
        pre = False
        if mode == "ern":
            ea = s.ea_ern(s.f["d"])
        elif mode == "disp":
            ea = s.ea_disp(s.f["d"], s.f["x"])
        elif mode == "dec":
            newr = bv.sub(s.rl(s.f["d"]), bv.const(size, 32))
            ea = newr[:24] + (0,) * 8
            pre = True
        elif mode == "abs8":
            ea = s.ea_abs8(s.f["a"])
        elif mode == "abs16":
            ea = s.ea_abs16(s.f["a"])
        elif mode == "abs24":
            ea = s.ea_abs24(s.f["a"])
        if pre:
            # the data register does not overlap the address register (property precondition)
            s.assume = bv.M.AND(s.assume, bv.M.NOT(bv.eq(s.f["s"][:3], s.f["d"][:3])))
        s.mw(size, ea, v)
        if pre:
            s.wl(s.f["d"], newr)
        mov_flags(s, v)
        s.cost("I", icycles)
        s.cost(DATA_KIND[size], DATA_N[size], ea)
        if pre:
            s.cost("N", 2)
    return f


# ---- arithmetic ------------------------------------------------------
def add_flags(s, a, b, r, carries, size):
    n = 8 * size
    s.set_flag(H, carries[n - 5])
    s.nz(r)
    s.set_flag(V, bv.M.AND(bv.M.NOT(bv.M.XOR(a[-1], b[-1])), bv.M.XOR(a[-1], r[-1])))
    s.set_flag(C, carries[-1])


def sub_flags(s, a, b, r, borrows, size):
    n = 8 * size
    s.set_flag(H, borrows[n - 5])
    s.nz(r)
    s.set_flag(V, bv.M.AND(bv.M.XOR(a[-1], b[-1]), bv.M.XOR(a[-1], r[-1])))
    s.set_flag(C, borrows[-1])


def sem_add(size, imm, icycles):
    def f(s):
        a = s.r(size, s.f["d"])
        b = s.f["i"] if imm else s.r(size, s.f["s"])
        r, c = bv.add_c(a, b)
        s.w(size, s.f["d"], r)
        add_flags(s, a, b, r, c, size)
        s.cost("I", icycles)
    return f


def sem_sub(size, imm, icycles, store=True):
    def f(s):
        a = s.r(size, s.f["d"])
        b = s.f["i"] if imm else s.r(size, s.f["s"])
        r, br = bv.sub_c(a, b)
        if store:
            s.w(size, s.f["d"], r)
        sub_flags(s, a, b, r, br, size)
        s.cost("I", icycles)
    return f


def sem_addx(imm):
    def f(s):
        a = s.rb(s.f["d"])
        b = s.f["i"] if imm else s.rb(s.f["s"])
        r, c = bv.add_c(a, b, s.flag(C))
        s.wb(s.f["d"], r)
        s.set_flag(H, c[3])
        s.set_flag(N, r[-1])
        # Z: previous value is kept when the result is zero, otherwise cleared
        s.set_flag(Z, bv.M.AND(s.flag(Z), bv.is_zero(r)))
        s.set_flag(V, bv.M.AND(bv.M.NOT(bv.M.XOR(a[-1], b[-1])), bv.M.XOR(a[-1], r[-1])))
        s.set_flag(C, c[-1])
        s.cost("I", 1)
    return f


def sem_neg(size):
    def f(s):
        b = s.r(size, s.f["d"])
        a = bv.const(0, 8 * size)
        r, br = bv.sub_c(a, b)
        s.w(size, s.f["d"], r)
        sub_flags(s, a, b, r, br, size)
        s.cost("I", 1)
    return f


def sem_incdec(size, k, inc):
    def f(s):
        a = s.r(size, s.f["d"])
        b = bv.const(k, 8 * size)
        r = bv.add(a, b) if inc else bv.sub(a, b)
        s.w(size, s.f["d"], r)
        s.nz(r)
        if inc:
            ov = bv.M.AND(bv.M.NOT(a[-1]), r[-1])
        else:
            ov = bv.M.AND(a[-1], bv.M.NOT(r[-1]))
        s.set_flag(V, ov)
        s.cost("I", 1)
    return f


def sem_adds(k, add):
    def f(s):
        a = s.rl(s.f["d"])
        b = bv.const(k, 32)
        s.wl(s.f["d"], bv.add(a, b) if add else bv.sub(a, b))
        s.cost("I", 1)
    return f


def sem_mulxu(size):
    def f(s):
        if size == 1:
            rd = s.rw(s.f["d"])
            rs = s.rb(s.f["s"])
            p = bv.umul_wide(bv.zext(rd[:8], 16), bv.zext(rs, 16))
            s.ww(s.f["d"], p)
            s.cost("I", 1)
            s.cost("N", 12)
        else:
            rd = s.rl(s.f["d"])
            rs = s.rw(s.f["s"])
            p = bv.umul_wide(bv.zext(rd[:16], 32), bv.zext(rs, 32))
            s.wl(s.f["d"], p)
            s.cost("I", 1)
            s.cost("N", 20)
    return f


def sem_divxu(size):
    def f(s):
        if size == 1:
            rd = s.rw(s.f["d"])
            rs = s.rb(s.f["s"])
            dv = bv.zext(rs, 16)
            q = bv.udiv(rd, dv)
            r = bv.urem(rd, dv)
            # property restricted to non-zero divisor and a quotient that fits
            s.assume = bv.M.AND(s.assume, bv.M.NOT(bv.is_zero(rs)))
            s.assume = bv.M.AND(s.assume, bv.is_zero(q[8:]))
            s.ww(s.f["d"], q[:8] + r[:8])
            s.set_flag(N, rs[-1])
            s.set_flag(Z, bv.is_zero(rs))
            s.cost("I", 1)
            s.cost("N", 12)
        else:
            rd = s.rl(s.f["d"])
            rs = s.rw(s.f["s"])
            dv = bv.zext(rs, 32)
            q = bv.udiv(rd, dv)
            r = bv.urem(rd, dv)
            s.assume = bv.M.AND(s.assume, bv.M.NOT(bv.is_zero(rs)))
            s.assume = bv.M.AND(s.assume, bv.is_zero(q[16:]))
            s.wl(s.f["d"], q[:16] + r[:16])
            s.set_flag(N, rs[-1])
            s.set_flag(Z, bv.is_zero(rs))
            s.cost("I", 1)
            s.cost("N", 20)
    return f


# ---- logic / shift ----------------------------------------------------
def sem_logic(size, op, imm, icycles):
    def f(s):
        a = s.r(size, s.f["d"])
        b = s.f["i"] if imm else s.r(size, s.f["s"])
        r = {"and": bv.AND, "or": bv.OR, "xor": bv.XOR}[op](a, b)
        s.w(size, s.f["d"], r)
        s.nz(r)
        s.set_flag(V, 0)
        s.cost("I", icycles)
    return f


def sem_not(size):
    def f(s):
        r = bv.NOT(s.r(size, s.f["d"]))
        s.w(size, s.f["d"], r)
        s.nz(r)
        s.set_flag(V, 0)
        s.cost("I", 1)
    return f


def sem_extu(size):
    def f(s):
        a = s.r(size, s.f["d"])
        half = 4 * size
        r = a[:half] + (0,) * half
        s.w(size, s.f["d"], r)
        s.set_flag(N, 0)
        s.set_flag(Z, bv.is_zero(r))
        s.set_flag(V, 0)
        s.cost("I", 1)
    return f


def sem_shift(size, kind):
    def f(s):
        a = s.r(size, s.f["d"])
        cin = s.flag(C)
        msb = a[-1]
        if kind in ("shll", "shal"):
            r = (0,) + a[:-1]
            cout = msb
        elif kind == "shlr":
            r = a[1:] + (0,)
            cout = a[0]
        elif kind == "shar":
            r = a[1:] + (msb,)
            cout = a[0]
        elif kind == "rotl":
            r = (msb,) + a[:-1]
            cout = msb
        elif kind == "rotr":
            r = a[1:] + (a[0],)
            cout = a[0]
        elif kind == "rotxl":
            r = (cin,) + a[:-1]
            cout = msb
        elif kind == "rotxr":
            r = a[1:] + (cin,)
            cout = a[0]
        s.w(size, s.f["d"], r)
        s.nz(r)
        if kind == "shal":
            s.set_flag(V, bv.M.XOR(a[-1], a[-2]))
        else:
            s.set_flag(V, 0)
        s.set_flag(C, cout)
        s.cost("I", 1)
    return f


# ---- bit manipulation -------------------------------------------------
def bit_operand(s, loc):
    """returns (value, writer, cost list)"""
    if loc == "rn":
        v = s.rb(s.f["d"])
        return v, (lambda nv: s.wb(s.f["d"], nv)), None
    if loc == "ern":
        ea = s.ea_ern(s.f["d"])
    else:
        ea = s.ea_abs8(s.f["a"])
    v = s.mr8(ea)
    return v, (lambda nv: s.mw8(ea, nv)), ea


def bit_number(s, src):
    if src == "imm":
        return s.f["n"]
    return s.rb(s.f["n"])[:3]


def onehot(n3):
    return tuple(bv.eq(n3, bv.const(i, 3)) for i in range(8))


def sem_bitmod(op, src, loc):
    """BSET/BCLR/BNOT (bit number from immediate or register), BST/BIST (immediate)"""
    def f(s):
        n3 = bit_number(s, src)
        v, wr, ea = bit_operand(s, loc)
        sel = onehot(n3)
        Mx = bv.M
        if op == "bset":
            nb = [1] * 8
        elif op == "bclr":
            nb = [0] * 8
        elif op == "bnot":
            nb = [Mx.NOT(x) for x in v]
        elif op == "bst":
            nb = [s.flag(C)] * 8
        elif op == "bist":
            nb = [Mx.NOT(s.flag(C))] * 8
        r = tuple(Mx.ITE(sel[i], nb[i], v[i]) for i in range(8))
        wr(r)
        if loc == "rn":
            s.cost("I", 1)
        else:
            s.cost("I", 2)
            s.cost("L", 2, ea)
    return f


def sem_btst(src, loc):
    def f(s):
        n3 = bit_number(s, src)
        v, wr, ea = bit_operand(s, loc)
        sel = onehot(n3)
        bit = bv.M.or_all([bv.M.AND(sel[i], v[i]) for i in range(8)])
        s.set_flag(Z, bv.M.NOT(bit))
        if loc == "rn":
            s.cost("I", 1)
        else:
            s.cost("I", 2)
            s.cost("L", 1, ea)
    return f


def sem_bitc(op, inv, loc):
    """BLD/BAND/BOR/BXOR and inverted forms: combine into C"""
    def f(s):
        n3 = s.f["n"]
        v, wr, ea = bit_operand(s, loc)
        sel = onehot(n3)
        Mx = bv.M
        bit = Mx.or_all([Mx.AND(sel[i], v[i]) for i in range(8)])
        if inv:
            bit = Mx.NOT(bit)
        c = s.flag(C)
        if op == "bld":
            r = bit
        elif op == "band":
            r = Mx.AND(c, bit)
        elif op == "bor":
            r = Mx.OR(c, bit)
        elif op == "bxor":
            r = Mx.XOR(c, bit)
        s.set_flag(C, r)
        if loc == "rn":
            s.cost("I", 1)
        else:
            s.cost("I", 2)
            s.cost("L", 1, ea)
    return f


# ---- control transfer ---------------------------------------------------
def cond_value(s, cc):
    Mx = bv.M
    c, v, z, n = s.flag(C), s.flag(V), s.flag(Z), s.flag(N)
    tbl = {
        0: 1, 1: 0,
        2: Mx.NOT(Mx.OR(c, z)), 3: Mx.OR(c, z),
        4: Mx.NOT(c), 5: c,
        6: Mx.NOT(z), 7: z,
        8: Mx.NOT(v), 9: v,
        10: Mx.NOT(n), 11: n,
        12: Mx.NOT(Mx.XOR(n, v)), 13: Mx.XOR(n, v),
        14: Mx.NOT(Mx.OR(z, Mx.XOR(n, v))), 15: Mx.OR(z, Mx.XOR(n, v)),
    }
    return tbl[cc]


def sem_bcc(cc, wide):
    def f(s):
        taken = cond_value(s, cc)
        tgt = bv.add(s.pc_next, bv.sext(s.f["x"], 32))
        s.pc = bv.ite(taken, tgt, s.pc_next)
        # an odd branch target may be reported as an error (C15 lists it among the faults)
        _, cr = bv.add_c(s.pc_next, bv.sext(s.f["x"], 32))
        wraps = bv.M.XOR(cr[-1], s.f["x"][-1])
        s.may_err = bv.M.AND(taken, bv.M.OR(tgt[0], wraps))
        s.cost("I", 2)
        if wide:
            s.cost("N", 2)
    return f


def push_pc(s, value24):
    sp = s.rl(bv.const(7, 3))
    nsp = bv.sub(sp, bv.const(4, 32))
    ea = nsp[:24] + (0,) * 8
    s.mw(4, ea, tuple(value24[:24]) + (0,) * 8)
    s.wl(bv.const(7, 3), nsp)
    return ea


def sem_jmp(mode):
    def f(s):
        if mode == "ern":
            s.pc = s.rl(s.f["n"])[:24] + (0,) * 8
            s.cost("I", 2)
        elif mode == "abs24":
            s.pc = s.ea_abs24(s.f["a"])
            s.cost("I", 2)
            s.cost("N", 2)
        else:
            va = tuple(s.f["a"]) + (0,) * 24
            t = s.mr(4, va)
            s.pc = t[:24] + (0,) * 8
            s.cost("I", 2)
            s.cost("J", 2, va)
            s.cost("N", 2)
    return f


def sem_bsr(wide):
    def f(s):
        ea = push_pc(s, s.pc_next)
        s.pc = bv.add(s.pc_next, bv.sext(s.f["x"], 32))
        s.cost("I", 2)
        s.cost("K", 2, ea)
        if wide:
            s.cost("N", 2)
    return f


def sem_jsr(mode):
    def f(s):
        if mode == "ern":
            # JSR @ER7 (target register is the stack pointer being decremented) is left open
            s.assume = bv.M.AND(s.assume, bv.M.NOT(bv.eq(s.f["n"], bv.const(7, 3))))
            tgt = s.rl(s.f["n"])[:24] + (0,) * 8
            ea = push_pc(s, s.pc_next)
            s.pc = tgt
            s.cost("I", 2)
            s.cost("K", 2, ea)
        elif mode == "abs24":
            ea = push_pc(s, s.pc_next)
            s.pc = s.ea_abs24(s.f["a"])
            s.cost("I", 2)
            s.cost("K", 2, ea)
            s.cost("N", 2)
        else:
            va = tuple(s.f["a"]) + (0,) * 24
            ea = push_pc(s, s.pc_next)
            t = s.mr(4, va)
            s.pc = t[:24] + (0,) * 8
            s.cost("I", 2)
            s.cost("J", 2, va)
            s.cost("K", 2, ea)
    return f


def sem_rts(s):
    sp = s.rl(bv.const(7, 3))
    ea = sp[:24] + (0,) * 8
    t = s.mr(4, ea)
    s.wl(bv.const(7, 3), bv.add(sp, bv.const(4, 32)))
    s.pc = t[:24] + (0,) * 8
    s.cost("I", 2)
    s.cost("K", 2, ea)
    s.cost("N", 2)


def sem_rte(s):
    sp = s.rl(bv.const(7, 3))
    ea = sp[:24] + (0,) * 8
    t = s.mr(4, ea)
    s.wl(bv.const(7, 3), bv.add(sp, bv.const(4, 32)))
    s.ccr = t[24:]
    s.pc = t[:24] + (0,) * 8
    s.cost("I", 2)
    s.cost("K", 2, ea)
    s.cost("N", 2)


def exception_entry(s, vec_addr, ret_pc):
    """shared by TRAPA and interrupt acceptance"""
    sp = s.rl(bv.const(7, 3))
    nsp = bv.sub(sp, bv.const(4, 32))
    ea = nsp[:24] + (0,) * 8
    s.mw(4, ea, tuple(ret_pc[:24]) + tuple(s.ccr0))
    s.wl(bv.const(7, 3), nsp)
    t = s.mr(4, vec_addr)
    s.pc = t[:24] + (0,) * 8
    s.set_flag(I, 1)
    s.unchecked.add("ccr.UI")   # UI may also be set depending on SYSCR.UE
    return ea


def sem_trapa(s):
    imm = s.f["n"]
    # TRAPA #0 is the MES system-call gate of this emulator (C14), not a CPU exception
    s.assume = bv.M.AND(s.assume, bv.M.NOT(bv.is_zero(imm)))
    vec = bv.add(bv.const(0x20, 32), bv.zext((0, 0) + tuple(imm), 32))
    ea = exception_entry(s, vec, s.pc_next)
    s.cost("I", 2)
    s.cost("J", 2, vec)
    s.cost("K", 2, ea)
    s.cost("N", 4)


def sem_trapa0(s):
    imm = s.f["n"]
    s.assume = bv.M.AND(s.assume, bv.is_zero(imm))
    s.mes = True
    s.unchecked.add("cost")


# ---- STC ----------------------------------------------------------------
def sem_stc_b(s):
    s.wb(s.f["d"], s.ccr0)
    s.cost("I", 1)


def sem_stc_w(mode, icycles):
    def f(s):
        pre = False
        if mode == "ern":
            ea = s.ea_ern(s.f["d"])
        elif mode == "disp":
            ea = s.ea_disp(s.f["d"], s.f["x"])
        elif mode == "dec":
            newr = bv.sub(s.rl(s.f["d"]), bv.const(2, 32))
            ea = newr[:24] + (0,) * 8
            pre = True
        elif mode == "abs16":
            ea = s.ea_abs16(s.f["a"])
        elif mode == "abs24":
            ea = s.ea_abs24(s.f["a"])
        # the word written: CCR at the even address; the other byte is not vouched for
        s.mw8(ea, s.ccr0)
        s.mw8(bv.add(ea, bv.const(1, 32)), None)
        s.unchecked.add("mem-value")
        if pre:
            s.wl(s.f["d"], newr)
        s.cost("I", icycles)
        s.cost("M", 1, ea)
        if pre:
            s.cost("N", 2)
    return f


# =====================================================================
# encoding table
# =====================================================================
FORMS = []
UNIMPL = []


def F(name, words, family, prop, sem):
    FORMS.append(Form(name, words, family, prop, sem))


def build():
    if FORMS:
        return
    B, Wd, L = 1, 2, 4
    sz = {1: "B", 2: "W", 4: "L"}
    # ---------------- MOV.B
    F("MOV.B #xx:8,Rd", ["1111dddd iiiiiiii"], "MOV", "C01", sem_mov_imm(1, 1))
    F("MOV.B Rs,Rd", ["00001100 ssssdddd"], "MOV", "C01", sem_mov_rr(1))
    F("MOV.B @ERs,Rd", ["01101000 0sssdddd"], "MOV", "C01", sem_mov_load(1, "ern", 1))
    F("MOV.B Rs,@ERd", ["01101000 1dddssss"], "MOV", "C01", sem_mov_store(1, "ern", 1))
    F("MOV.B @(d:16,ERs),Rd", ["01101110 0sssdddd", "xxxxxxxxxxxxxxxx"], "MOV", "C01", sem_mov_load(1, "disp", 2))
    F("MOV.B Rs,@(d:16,ERd)", ["01101110 1dddssss", "xxxxxxxxxxxxxxxx"], "MOV", "C01", sem_mov_store(1, "disp", 2))
    F("MOV.B @(d:24,ERs),Rd", ["01111000 0sss0000", "01101010 0010dddd", "00000000 xxxxxxxx", "xxxxxxxxxxxxxxxx"], "MOV", "C01", sem_mov_load(1, "disp", 4))
    F("MOV.B Rs,@(d:24,ERd)", ["01111000 0ddd0000", "01101010 1010ssss", "00000000 xxxxxxxx", "xxxxxxxxxxxxxxxx"], "MOV", "C01", sem_mov_store(1, "disp", 4))
    F("MOV.B @ERs+,Rd", ["01101100 0sssdddd"], "MOV", "C01", sem_mov_load(1, "inc", 1))
    F("MOV.B Rs,@-ERd", ["01101100 1dddssss"], "MOV", "C01", sem_mov_store(1, "dec", 1))
    F("MOV.B @aa:8,Rd", ["0010dddd aaaaaaaa"], "MOV", "C01", sem_mov_load(1, "abs8", 1))
    F("MOV.B Rs,@aa:8", ["0011ssss aaaaaaaa"], "MOV", "C01", sem_mov_store(1, "abs8", 1))
    F("MOV.B @aa:16,Rd", ["01101010 0000dddd", "aaaaaaaaaaaaaaaa"], "MOV", "C01", sem_mov_load(1, "abs16", 2))
    F("MOV.B Rs,@aa:16", ["01101010 1000ssss", "aaaaaaaaaaaaaaaa"], "MOV", "C01", sem_mov_store(1, "abs16", 2))
    F("MOV.B @aa:24,Rd", ["01101010 0010dddd", "00000000 aaaaaaaa", "aaaaaaaaaaaaaaaa"], "MOV", "C01", sem_mov_load(1, "abs24", 3))
    F("MOV.B Rs,@aa:24", ["01101010 1010ssss", "00000000 aaaaaaaa", "aaaaaaaaaaaaaaaa"], "MOV", "C01", sem_mov_store(1, "abs24", 3))
    # ---------------- MOV.W
    F("MOV.W #xx:16,Rd", ["01111001 0000dddd", "iiiiiiiiiiiiiiii"], "MOV", "C01", sem_mov_imm(2, 2))
    F("MOV.W Rs,Rd", ["00001101 ssssdddd"], "MOV", "C01", sem_mov_rr(2))
    F("MOV.W @ERs,Rd", ["01101001 0sssdddd"], "MOV", "C01", sem_mov_load(2, "ern", 1))
    F("MOV.W Rs,@ERd", ["01101001 1dddssss"], "MOV", "C01", sem_mov_store(2, "ern", 1))
    F("MOV.W @(d:16,ERs),Rd", ["01101111 0sssdddd", "xxxxxxxxxxxxxxxx"], "MOV", "C01", sem_mov_load(2, "disp", 2))
    F("MOV.W Rs,@(d:16,ERd)", ["01101111 1dddssss", "xxxxxxxxxxxxxxxx"], "MOV", "C01", sem_mov_store(2, "disp", 2))
    F("MOV.W @(d:24,ERs),Rd", ["01111000 0sss0000", "01101011 0010dddd", "00000000 xxxxxxxx", "xxxxxxxxxxxxxxxx"], "MOV", "C01", sem_mov_load(2, "disp", 4))
    F("MOV.W Rs,@(d:24,ERd)", ["01111000 0ddd0000", "01101011 1010ssss", "00000000 xxxxxxxx", "xxxxxxxxxxxxxxxx"], "MOV", "C01", sem_mov_store(2, "disp", 4))
    F("MOV.W @ERs+,Rd", ["01101101 0sssdddd"], "MOV", "C01", sem_mov_load(2, "inc", 1))
    F("MOV.W Rs,@-ERd", ["01101101 1dddssss"], "MOV", "C01", sem_mov_store(2, "dec", 1))
    F("MOV.W @aa:16,Rd", ["01101011 0000dddd", "aaaaaaaaaaaaaaaa"], "MOV", "C01", sem_mov_load(2, "abs16", 2))
    F("MOV.W Rs,@aa:16", ["01101011 1000ssss", "aaaaaaaaaaaaaaaa"], "MOV", "C01", sem_mov_store(2, "abs16", 2))
    F("MOV.W @aa:24,Rd", ["01101011 0010dddd", "00000000 aaaaaaaa", "aaaaaaaaaaaaaaaa"], "MOV", "C01", sem_mov_load(2, "abs24", 3))
    F("MOV.W Rs,@aa:24", ["01101011 1010ssss", "00000000 aaaaaaaa", "aaaaaaaaaaaaaaaa"], "MOV", "C01", sem_mov_store(2, "abs24", 3))
    # ---------------- MOV.L
    P = "00000001 00000000"
    F("MOV.L #xx:32,ERd", ["01111010 00000ddd", "iiiiiiiiiiiiiiii", "iiiiiiiiiiiiiiii"], "MOV", "C01", sem_mov_imm(4, 3))
    F("MOV.L ERs,ERd", ["00001111 1sss0ddd"], "MOV", "C01", sem_mov_rr(4))
    F("MOV.L @ERs,ERd", [P, "01101001 0sss0ddd"], "MOV", "C01", sem_mov_load(4, "ern", 2))
    F("MOV.L ERs,@ERd", [P, "01101001 1ddd0sss"], "MOV", "C01", sem_mov_store(4, "ern", 2))
    F("MOV.L @(d:16,ERs),ERd", [P, "01101111 0sss0ddd", "xxxxxxxxxxxxxxxx"], "MOV", "C01", sem_mov_load(4, "disp", 3))
    F("MOV.L ERs,@(d:16,ERd)", [P, "01101111 1ddd0sss", "xxxxxxxxxxxxxxxx"], "MOV", "C01", sem_mov_store(4, "disp", 3))
    F("MOV.L @(d:24,ERs),ERd", [P, "01111000 0sss0000", "01101011 00100ddd", "00000000 xxxxxxxx", "xxxxxxxxxxxxxxxx"], "MOV", "C01", sem_mov_load(4, "disp", 5))
    # bit 7 of the 78 word of the store form: 1 (as in the other MOV.L store forms); the
    # variant with bit 7 clear is treated as an undefined encoding (listed, never reported)
    F("MOV.L ERs,@(d:24,ERd)", [P, "01111000 1ddd0000", "01101011 10100sss", "00000000 xxxxxxxx", "xxxxxxxxxxxxxxxx"], "MOV", "C01", sem_mov_store(4, "disp", 5))
    F("MOV.L @ERs+,ERd", [P, "01101101 0sss0ddd"], "MOV", "C01", sem_mov_load(4, "inc", 2))
    F("MOV.L ERs,@-ERd", [P, "01101101 1ddd0sss"], "MOV", "C01", sem_mov_store(4, "dec", 2))
    F("MOV.L @aa:16,ERd", [P, "01101011 00000ddd", "aaaaaaaaaaaaaaaa"], "MOV", "C01", sem_mov_load(4, "abs16", 3))
    F("MOV.L ERs,@aa:16", [P, "01101011 10000sss", "aaaaaaaaaaaaaaaa"], "MOV", "C01", sem_mov_store(4, "abs16", 3))
    F("MOV.L @aa:24,ERd", [P, "01101011 00100ddd", "00000000 aaaaaaaa", "aaaaaaaaaaaaaaaa"], "MOV", "C01", sem_mov_load(4, "abs24", 4))
    F("MOV.L ERs,@aa:24", [P, "01101011 10100sss", "00000000 aaaaaaaa", "aaaaaaaaaaaaaaaa"], "MOV", "C01", sem_mov_store(4, "abs24", 4))
    # ---------------- arithmetic
    F("ADD.B #xx:8,Rd", ["1000dddd iiiiiiii"], "ADD", "C02", sem_add(1, True, 1))
    F("ADD.B Rs,Rd", ["00001000 ssssdddd"], "ADD", "C02", sem_add(1, False, 1))
    F("ADD.W #xx:16,Rd", ["01111001 0001dddd", "iiiiiiiiiiiiiiii"], "ADD", "C02", sem_add(2, True, 2))
    F("ADD.W Rs,Rd", ["00001001 ssssdddd"], "ADD", "C02", sem_add(2, False, 1))
    F("ADD.L #xx:32,ERd", ["01111010 00010ddd", "iiiiiiiiiiiiiiii", "iiiiiiiiiiiiiiii"], "ADD", "C02", sem_add(4, True, 3))
    F("ADD.L ERs,ERd", ["00001010 1sss0ddd"], "ADD", "C02", sem_add(4, False, 1))
    F("ADDS #1,ERd", ["00001011 00000ddd"], "ADDS", "C02", sem_adds(1, True))
    F("ADDS #2,ERd", ["00001011 10000ddd"], "ADDS", "C02", sem_adds(2, True))
    F("ADDS #4,ERd", ["00001011 10010ddd"], "ADDS", "C02", sem_adds(4, True))
    F("ADDX #xx:8,Rd", ["1001dddd iiiiiiii"], "ADDX", "C02", sem_addx(True))
    F("ADDX Rs,Rd", ["00001110 ssssdddd"], "ADDX", "C02", sem_addx(False))
    F("SUB.B Rs,Rd", ["00011000 ssssdddd"], "SUB", "C02", sem_sub(1, False, 1))
    F("SUB.W #xx:16,Rd", ["01111001 0011dddd", "iiiiiiiiiiiiiiii"], "SUB", "C02", sem_sub(2, True, 2))
    F("SUB.W Rs,Rd", ["00011001 ssssdddd"], "SUB", "C02", sem_sub(2, False, 1))
    F("SUB.L #xx:32,ERd", ["01111010 00110ddd", "iiiiiiiiiiiiiiii", "iiiiiiiiiiiiiiii"], "SUB", "C02", sem_sub(4, True, 3))
    F("SUB.L ERs,ERd", ["00011010 1sss0ddd"], "SUB", "C02", sem_sub(4, False, 1))
    F("SUBS #1,ERd", ["00011011 00000ddd"], "SUBS", "C02", sem_adds(1, False))
    F("SUBS #2,ERd", ["00011011 10000ddd"], "SUBS", "C02", sem_adds(2, False))
    F("SUBS #4,ERd", ["00011011 10010ddd"], "SUBS", "C02", sem_adds(4, False))
    F("CMP.B #xx:8,Rd", ["1010dddd iiiiiiii"], "CMP", "C02", sem_sub(1, True, 1, store=False))
    F("CMP.B Rs,Rd", ["00011100 ssssdddd"], "CMP", "C02", sem_sub(1, False, 1, store=False))
    F("CMP.W #xx:16,Rd", ["01111001 0010dddd", "iiiiiiiiiiiiiiii"], "CMP", "C02", sem_sub(2, True, 2, store=False))
    F("CMP.W Rs,Rd", ["00011101 ssssdddd"], "CMP", "C02", sem_sub(2, False, 1, store=False))
    F("CMP.L #xx:32,ERd", ["01111010 00100ddd", "iiiiiiiiiiiiiiii", "iiiiiiiiiiiiiiii"], "CMP", "C02", sem_sub(4, True, 3, store=False))
    F("CMP.L ERs,ERd", ["00011111 1sss0ddd"], "CMP", "C02", sem_sub(4, False, 1, store=False))
    F("INC.B Rd", ["00001010 0000dddd"], "INC", "C02", sem_incdec(1, 1, True))
    F("INC.W #1,Rd", ["00001011 0101dddd"], "INC", "C02", sem_incdec(2, 1, True))
    F("INC.W #2,Rd", ["00001011 1101dddd"], "INC", "C02", sem_incdec(2, 2, True))
    F("INC.L #1,ERd", ["00001011 01110ddd"], "INC", "C02", sem_incdec(4, 1, True))
    F("INC.L #2,ERd", ["00001011 11110ddd"], "INC", "C02", sem_incdec(4, 2, True))
    F("DEC.B Rd", ["00011010 0000dddd"], "DEC", "C02", sem_incdec(1, 1, False))
    F("DEC.W #1,Rd", ["00011011 0101dddd"], "DEC", "C02", sem_incdec(2, 1, False))
    F("DEC.W #2,Rd", ["00011011 1101dddd"], "DEC", "C02", sem_incdec(2, 2, False))
    F("DEC.L #1,ERd", ["00011011 01110ddd"], "DEC", "C02", sem_incdec(4, 1, False))
    F("DEC.L #2,ERd", ["00011011 11110ddd"], "DEC", "C02", sem_incdec(4, 2, False))
    F("NEG.B Rd", ["00010111 1000dddd"], "NEG", "C02", sem_neg(1))
    F("NEG.W Rd", ["00010111 1001dddd"], "NEG", "C02", sem_neg(2))
    F("NEG.L ERd", ["00010111 10110ddd"], "NEG", "C02", sem_neg(4))
    F("MULXU.B Rs,Rd", ["01010000 ssssdddd"], "MULXU", "C02", sem_mulxu(1))
    F("MULXU.W Rs,ERd", ["01010010 ssss0ddd"], "MULXU", "C02", sem_mulxu(2))
    F("DIVXU.B Rs,Rd", ["01010001 ssssdddd"], "DIVXU", "C02", sem_divxu(1))
    F("DIVXU.W Rs,ERd", ["01010011 ssss0ddd"], "DIVXU", "C02", sem_divxu(2))
    # ---------------- logic
    for op, hi, lo_b, w_imm, w_reg in (("and", "1110", "00010110", "0110", "01100110"), ("or", "1100", "00010100", "0100", "01100100"), ("xor", "1101", "00010101", "0101", "01100101")):
        nm = op.upper()
        F(nm + ".B #xx:8,Rd", [hi + "dddd iiiiiiii"], nm, "C03", sem_logic(1, op, True, 1))
        F(nm + ".B Rs,Rd", [lo_b + " ssssdddd"], nm, "C03", sem_logic(1, op, False, 1))
        F(nm + ".W #xx:16,Rd", ["01111001 " + w_imm + "dddd", "iiiiiiiiiiiiiiii"], nm, "C03", sem_logic(2, op, True, 2))
        F(nm + ".W Rs,Rd", [w_reg + " ssssdddd"], nm, "C03", sem_logic(2, op, False, 1))
        F(nm + ".L #xx:32,ERd", ["01111010 " + w_imm + "0ddd", "iiiiiiiiiiiiiiii", "iiiiiiiiiiiiiiii"], nm, "C03", sem_logic(4, op, True, 3))
        F(nm + ".L ERs,ERd", ["00000001 11110000", w_reg + " 0sss0ddd"], nm, "C03", sem_logic(4, op, False, 2))
    F("NOT.B Rd", ["00010111 0000dddd"], "NOT", "C03", sem_not(1))
    F("NOT.W Rd", ["00010111 0001dddd"], "NOT", "C03", sem_not(2))
    F("NOT.L ERd", ["00010111 00110ddd"], "NOT", "C03", sem_not(4))
    F("EXTU.W Rd", ["00010111 0101dddd"], "EXTU", "C03", sem_extu(2))
    F("EXTU.L ERd", ["00010111 01110ddd"], "EXTU", "C03", sem_extu(4))
    for kind, byte, hi in (("shll", "00010000", "0"), ("shal", "00010000", "1"), ("shlr", "00010001", "0"), ("shar", "00010001", "1"),
                           ("rotxl", "00010010", "0"), ("rotl", "00010010", "1"), ("rotxr", "00010011", "0"), ("rotr", "00010011", "1")):
        nm = kind.upper()
        F(nm + ".B Rd", [byte + " " + hi + "000dddd"], nm, "C03", sem_shift(1, kind))
        F(nm + ".W Rd", [byte + " " + hi + "001dddd"], nm, "C03", sem_shift(2, kind))
        F(nm + ".L ERd", [byte + " " + hi + "0110ddd"], nm, "C03", sem_shift(4, kind))
    # ---------------- bit manipulation
    for op, ri, rr in (("bset", "01110000", "01100000"), ("bnot", "01110001", "01100001"), ("bclr", "01110010", "01100010")):
        nm = op.upper()
        F(nm + " #xx:3,Rd", [ri + " 0nnndddd"], nm, "C04", sem_bitmod(op, "imm", "rn"))
        F(nm + " #xx:3,@ERd", ["01111101 0ddd0000", ri + " 0nnn0000"], nm, "C04", sem_bitmod(op, "imm", "ern"))
        F(nm + " #xx:3,@aa:8", ["01111111 aaaaaaaa", ri + " 0nnn0000"], nm, "C04", sem_bitmod(op, "imm", "abs"))
        F(nm + " Rn,Rd", [rr + " nnnndddd"], nm, "C04", sem_bitmod(op, "reg", "rn"))
        F(nm + " Rn,@ERd", ["01111101 0ddd0000", rr + " nnnn0000"], nm, "C04", sem_bitmod(op, "reg", "ern"))
        F(nm + " Rn,@aa:8", ["01111111 aaaaaaaa", rr + " nnnn0000"], nm, "C04", sem_bitmod(op, "reg", "abs"))
    F("BTST #xx:3,Rd", ["01110011 0nnndddd"], "BTST", "C04", sem_btst("imm", "rn"))
    F("BTST #xx:3,@ERd", ["01111100 0ddd0000", "01110011 0nnn0000"], "BTST", "C04", sem_btst("imm", "ern"))
    F("BTST #xx:3,@aa:8", ["01111110 aaaaaaaa", "01110011 0nnn0000"], "BTST", "C04", sem_btst("imm", "abs"))
    F("BTST Rn,Rd", ["01100011 nnnndddd"], "BTST", "C04", sem_btst("reg", "rn"))
    F("BTST Rn,@ERd", ["01111100 0ddd0000", "01100011 nnnn0000"], "BTST", "C04", sem_btst("reg", "ern"))
    F("BTST Rn,@aa:8", ["01111110 aaaaaaaa", "01100011 nnnn0000"], "BTST", "C04", sem_btst("reg", "abs"))
    for op, inv, code, b7 in (("bst", False, "01100111", "0"), ("bist", False, "01100111", "1")):
        nm = op.upper()
        F(nm + " #xx:3,Rd", [code + " " + b7 + "nnndddd"], nm, "C04", sem_bitmod(op, "imm", "rn"))
        F(nm + " #xx:3,@ERd", ["01111101 0ddd0000", code + " " + b7 + "nnn0000"], nm, "C04", sem_bitmod(op, "imm", "ern"))
        F(nm + " #xx:3,@aa:8", ["01111111 aaaaaaaa", code + " " + b7 + "nnn0000"], nm, "C04", sem_bitmod(op, "imm", "abs"))
    for op, code in (("bld", "01110111"), ("band", "01110110"), ("bor", "01110100"), ("bxor", "01110101")):
        for inv in (False, True):
            nm = ("BI" + op[1:] if inv else op).upper()
            b7 = "1" if inv else "0"
            F(nm + " #xx:3,Rd", [code + " " + b7 + "nnndddd"], nm, "C04", sem_bitc(op, inv, "rn"))
            F(nm + " #xx:3,@ERd", ["01111100 0ddd0000", code + " " + b7 + "nnn0000"], nm, "C04", sem_bitc(op, inv, "ern"))
            F(nm + " #xx:3,@aa:8", ["01111110 aaaaaaaa", code + " " + b7 + "nnn0000"], nm, "C04", sem_bitc(op, inv, "abs"))
    # ---------------- control transfer
    ccn = ["BRA", "BRN", "BHI", "BLS", "BCC", "BCS", "BNE", "BEQ", "BVC", "BVS", "BPL", "BMI", "BGE", "BLT", "BGT", "BLE"]
    for cc in range(16):
        b = format(cc, "04b")
        F(ccn[cc] + " d:8", ["0100" + b + " xxxxxxxx"], "Bcc", "C05", sem_bcc(cc, False))
        F(ccn[cc] + " d:16", ["01011000 " + b + "0000", "xxxxxxxxxxxxxxxx"], "Bcc", "C05", sem_bcc(cc, True))
    F("JMP @ERn", ["01011001 0nnn0000"], "JMP", "C05", sem_jmp("ern"))
    F("JMP @aa:24", ["01011010 aaaaaaaa", "aaaaaaaaaaaaaaaa"], "JMP", "C05", sem_jmp("abs24"))
    F("JMP @@aa:8", ["01011011 aaaaaaaa"], "JMP", "C05", sem_jmp("ind"))
    F("BSR d:8", ["01010101 xxxxxxxx"], "BSR", "C05", sem_bsr(False))
    F("BSR d:16", ["01011100 00000000", "xxxxxxxxxxxxxxxx"], "BSR", "C05", sem_bsr(True))
    F("JSR @ERn", ["01011101 0nnn0000"], "JSR", "C05", sem_jsr("ern"))
    F("JSR @aa:24", ["01011110 aaaaaaaa", "aaaaaaaaaaaaaaaa"], "JSR", "C05", sem_jsr("abs24"))
    F("JSR @@aa:8", ["01011111 aaaaaaaa"], "JSR", "C05", sem_jsr("ind"))
    F("RTS", ["01010100 01110000"], "RTS", "C05", sem_rts)
    F("RTE", ["01010110 01110000"], "RTE", "C06", sem_rte)
    F("TRAPA #xx:2", ["01010111 00nn0000"], "TRAPA", "C06", sem_trapa)
    F("TRAPA #0 (MES gate)", ["01010111 00nn0000"], "MES", "C14", sem_trapa0)
    # ---------------- STC
    F("STC.B CCR,Rd", ["00000010 0000dddd"], "STC", "STC", sem_stc_b)
    Q = "00000001 01000000"
    F("STC.W CCR,@ERd", [Q, "01101001 1ddd0000"], "STC", "STC", sem_stc_w("ern", 2))
    F("STC.W CCR,@(d:16,ERd)", [Q, "01101111 1ddd0000", "xxxxxxxxxxxxxxxx"], "STC", "STC", sem_stc_w("disp", 3))
    F("STC.W CCR,@(d:24,ERd)", [Q, "01111000 0ddd0000", "01101011 10100000", "00000000 xxxxxxxx", "xxxxxxxxxxxxxxxx"], "STC", "STC", sem_stc_w("disp", 5))
    F("STC.W CCR,@-ERd", [Q, "01101101 1ddd0000"], "STC", "STC", sem_stc_w("dec", 2))
    F("STC.W CCR,@aa:16", [Q, "01101011 10000000", "aaaaaaaaaaaaaaaa"], "STC", "STC", sem_stc_w("abs16", 3))
    F("STC.W CCR,@aa:24", [Q, "01101011 10100000", "00000000 aaaaaaaa", "aaaaaaaaaaaaaaaa"], "STC", "STC", sem_stc_w("abs24", 4))

    # ---------------- instructions the emulator does not implement (C07)
    def Un(name, words):
        UNIMPL.append(Unimpl(name, words))
    Un("NOP", ["00000000 00000000"])
    Un("SLEEP", ["00000001 10000000"])
    Un("LDC #xx:8,CCR", ["00000111 --------"])
    Un("LDC Rs,CCR", ["00000011 0000----"])
    Un("LDC.W @ERs,CCR", [Q, "01101001 0---0000"])
    Un("LDC.W @(d:16,ERs),CCR", [Q, "01101111 0---0000"])
    Un("LDC.W @(d:24,ERs),CCR", [Q, "01111000 0---0000", "01101011 00100000"])
    Un("LDC.W @ERs+,CCR", [Q, "01101101 0---0000"])
    Un("LDC.W @aa:16,CCR", [Q, "01101011 00000000"])
    Un("LDC.W @aa:24,CCR", [Q, "01101011 00100000"])
    Un("ANDC #xx:8,CCR", ["00000110 --------"])
    Un("ORC #xx:8,CCR", ["00000100 --------"])
    Un("XORC #xx:8,CCR", ["00000101 --------"])
    Un("SUBX #xx:8,Rd", ["1011---- --------"])
    Un("SUBX Rs,Rd", ["00011110 --------"])
    Un("DAA Rd", ["00001111 0000----"])
    Un("DAS Rd", ["00011111 0000----"])
    Un("EXTS.W Rd", ["00010111 1101----"])
    Un("EXTS.L ERd", ["00010111 11110---"])
    Un("MULXS.B Rs,Rd", ["00000001 11000000", "01010000 --------"])
    Un("MULXS.W Rs,ERd", ["00000001 11000000", "01010010 ----0---"])
    Un("DIVXS.B Rs,Rd", ["00000001 11010000", "01010001 --------"])
    Un("DIVXS.W Rs,ERd", ["00000001 11010000", "01010011 ----0---"])
    Un("EEPMOV.B", ["01111011 01011100", "01011001 10001111"])
    Un("EEPMOV.W", ["01111011 11010100", "01011001 10001111"])
    Un("MOVFPE @aa:16,Rd", ["01101010 0100----"])
    Un("MOVTPE Rs,@aa:16", ["01101010 1100----"])
