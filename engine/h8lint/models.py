"""Transfer models for library callees met in the analysed crate (only those actually met)."""
import re

import bv
from interp import Agg, Enum, Int, Opaque, Ref, SymArr, SymEnum, UNIT, bool_int, unwrap_ref

OK, ERR = 0, 1          # Result variants
NONE, SOME = 0, 1       # Option variants
CONTINUE, BREAK = 0, 1  # ControlFlow variants

_INT_TY = re.compile(r"^(?:core|std)::num::<impl ([iu])(8|16|32|64|128|size)>::(\w+)$")


def m_try_branch(ip, st, fr, t, args):
    v = args[0]
    if not isinstance(v, Enum):
        st.tag("try-branch-opaque")
        return [(None, Enum(CONTINUE, [Opaque("try-ok")])), (None, Enum(BREAK, [Enum(ERR, [Opaque("try-err")])]))]
    full = t["callee"]["full"]
    if full.startswith("<std::option::Option") or full.startswith("<core::option::Option"):
        if v.variant == SOME:
            return Enum(CONTINUE, [v.fields[0]])
        return Enum(BREAK, [Enum(NONE, [])])
    if v.variant == OK:
        return Enum(CONTINUE, [v.fields[0]])
    return Enum(BREAK, [Enum(ERR, [v.fields[0]])])


def m_from_residual(ip, st, fr, t, args):
    v = args[0]
    full = t["callee"]["full"]
    if full.startswith("<std::option::Option") or full.startswith("<core::option::Option"):
        return Enum(NONE, [])
    if isinstance(v, Enum) and v.fields:
        return Enum(ERR, [Opaque("err-from", v.fields[0])])
    return Enum(ERR, [Opaque("err")])


def m_identity0(ip, st, fr, t, args):
    return args[0]


def m_opaque(tag):
    def f(ip, st, fr, t, args):
        return ip.opaque_of_type(t["dest"]["ty"], tag)
    return f


def m_anyhow(ip, st, fr, t, args):
    # an error value is created here: remember where (used to attribute rejections)
    if len(st.frames) >= 1:
        st.tag("bail:" + st.frames[-1].body["key"].split("::")[-1])
    return Opaque("anyhow")


def m_unit(ip, st, fr, t, args):
    return UNIT


def m_ok_or_else(ip, st, fr, t, args):
    v = args[0]
    if isinstance(v, Enum):
        if v.variant == SOME:
            return Enum(OK, [v.fields[0]])
        st.tag("bail:" + st.frames[-1].body["key"].split("::")[-1])
        return Enum(ERR, [Opaque("ok_or_else")])
    return [(None, Enum(OK, [Opaque("v")])), (None, Enum(ERR, [Opaque("e")]))]


def m_unwrap(ip, st, fr, t, args):
    v = args[0]
    full = t["callee"]["full"] or ""
    is_opt = "option::Option" in full
    if isinstance(v, Enum):
        good = SOME if is_opt else OK
        if v.variant == good:
            return v.fields[0]
        return [("panic", None, {"kind": "unwrap-on-" + ("None" if is_opt else "Err"), "callee": t["callee"]["path"]})]
    st.tag("unwrap-opaque")
    return [(None, Opaque("unwrapped", v)), ("panic", None, {"kind": "unwrap-opaque", "callee": t["callee"]["path"]})]


def m_range_index(ip, st, fr, t, args):
    """<[T; N] / [T] / Vec<T> as Index<Range*>>::index: panics unless start <= end <= len"""
    full = t["callee"].get("full") or ""
    idx = args[1]
    if isinstance(idx, Ref):
        idx = ip.read_loc(st, idx.root, idx.path)
    # length of the indexed sequence when the type tells it
    n = None
    try:
        ty = ip.types[ip.operand_ty(t["args"][0])]
        while ty["k"] in ("ref", "ptr"):
            ty = ip.types[ty["to"]]
        if ty["k"] == "array" and ty.get("len") is not None:
            n = int(ty["len"])
    except Exception:
        n = None
    start = end = None
    if isinstance(idx, Agg) and all(isinstance(x, Int) for x in idx.fields):
        if "RangeFrom<" in full and len(idx.fields) == 1:
            start = idx.fields[0].bits
        elif "RangeTo<" in full and len(idx.fields) == 1:
            end = idx.fields[0].bits
        elif "Range<" in full and len(idx.fields) == 2:
            start, end = idx.fields[0].bits, idx.fields[1].bits
    if start is None and end is None:
        return None
    Mx = bv.M
    bad = 0
    w = len(start if start is not None else end)
    if start is not None and end is not None:
        bad = Mx.OR(bad, bv.ult(end, start))
    if n is not None:
        hi = end if end is not None else start
        bad = Mx.OR(bad, bv.ult(bv.const(n, w), hi))
    view = Opaque("subslice", (start, end))
    if bad == 0:
        return view
    return [("panic", bad, {"kind": "slice-index", "op": "range index out of bounds", "callee": t["callee"]["path"]}), (Mx.NOT(bad), view)]


def m_is_variant(variant):
    def f(ip, st, fr, t, args):
        v = args[0]
        # argument is a reference to the enum
        if isinstance(v, Ref):
            v = ip.read_loc(st, v.root, v.path)
        if isinstance(v, Enum):
            return bool_int(1 if v.variant == variant else 0)
        return Opaque("is_variant")
    return f


def m_discriminant_value(ip, st, fr, t, args):
    v = args[0]
    if isinstance(v, Ref):
        v = ip.read_loc(st, v.root, v.path)
    w = ip.int_info(t["dest"]["ty"])
    w = w[0] if w else 64
    if isinstance(v, SymEnum):
        return Int(bv.cast(v.bits, w, False))
    if isinstance(v, Enum):
        # type of the referenced enum
        at = ip.types[t["args"][0]["p"]["ty"]] if t["args"][0]["k"] in ("copy", "move") else None
        tid = None
        if at is not None and at["k"] in ("ref", "ptr"):
            tid = at["to"]
        if tid is not None and "variants" in ip.types[tid]:
            return Int(bv.const(int(ip.types[tid]["variants"][v.variant]["discr"]), w))
        return Int(bv.const(v.variant, w))
    return Opaque("discriminant")


def m_get_or_insert(ip, st, fr, t, args):
    r = args[0]
    if isinstance(r, Ref):
        cur = ip.read_loc(st, r.root, r.path)
        if isinstance(cur, Enum) and cur.variant == SOME:
            return Ref(r.root, r.path + (0,))
        if isinstance(cur, Enum) and cur.variant == NONE:
            ip.write_loc(st, r.root, r.path, Enum(SOME, [args[1]]))
            return Ref(r.root, r.path + (0,))
        # unknown state: it is Some afterwards, holding either the old or the new value
        ip.write_loc(st, r.root, r.path, Enum(SOME, [Opaque("old-or-new")]))
        return Ref(r.root, r.path + (0,))
    return Opaque("get_or_insert")


def m_option_take(ip, st, fr, t, args):
    r = args[0]
    if isinstance(r, Ref):
        cur = ip.read_loc(st, r.root, r.path)
        ip.write_loc(st, r.root, r.path, Enum(NONE, []))
        if isinstance(cur, Enum):
            return cur
        return [(None, Enum(NONE, [])), (None, Enum(SOME, [Opaque("taken")]))]
    return Opaque("take")


def m_rwlock_read(ip, st, fr, t, args):
    # host-side configuration flags (statics); lock poisoning is not guest-controllable
    r = args[0]
    name = r.root[1] if isinstance(r, Ref) and r.root[0] == "static" else "?"
    return Enum(OK, [Opaque("guard", name)])


def m_guard_deref(ip, st, fr, t, args):
    g = args[0]
    if isinstance(g, Ref):
        g = ip.read_loc(st, g.root, g.path)
    if isinstance(g, Opaque) and g.tag == "guard":
        root = ("setting", g.data)
        if root not in st.mem:
            st.mem[root] = Int(bv.data_bv("setting_" + str(g.data).split("::")[-1], 1))
        return Ref(root, ())
    return Opaque("deref")


def m_ord_minmax(ip, st, fr, t, args):
    a, b = args[0], args[1]
    if not (isinstance(a, Int) and isinstance(b, Int)):
        return Opaque("minmax")
    ii = ip.int_info(ip.operand_ty(t["args"][0]))
    signed = ii[1] if ii else False
    lt = bv.slt(a.bits, b.bits) if signed else bv.ult(a.bits, b.bits)
    if t["callee"]["path"].endswith("::max"):
        return Int(bv.ite(lt, b.bits, a.bits))
    return Int(bv.ite(lt, a.bits, b.bits))


def m_checked_add_signed(ip, st, fr, t, args):
    a, b = args
    if not (isinstance(a, Int) and isinstance(b, Int)):
        return [(None, Enum(SOME, [Opaque("cas")])), (None, Enum(NONE, []))]
    s, c = bv.add_c(a.bits, b.bits)
    ok = bv.M.NOT(bv.M.XOR(c[-1], b.bits[-1]))
    return [(ok, Enum(SOME, [Int(s)])), (bv.M.NOT(ok), Enum(NONE, []))]


def int_method(ip, st, fr, t, args):
    m = _INT_TY.match(t["callee"]["path"])
    signed = m.group(1) == "i"
    name = m.group(3)
    Mx = bv.M
    a = args[0]
    b = args[1] if len(args) > 1 else None
    if name in ("from_be_bytes", "from_le_bytes") and isinstance(a, Agg) and all(isinstance(e, Int) and len(e.bits) == 8 for e in a.fields):
        parts = list(a.fields) if name == "from_le_bytes" else list(reversed(a.fields))
        bits = ()
        for e in parts:
            bits = bits + tuple(e.bits)
        return Int(bits)
    if not isinstance(a, Int) or (b is not None and not isinstance(b, Int)):
        return ip.opaque_of_type(t["dest"]["ty"], "int:" + name)
    x = a.bits
    y = b.bits if b is not None else None
    if name == "wrapping_add":
        return Int(bv.add(x, y))
    if name == "wrapping_sub":
        return Int(bv.sub(x, y))
    if name == "wrapping_add_signed" or name == "wrapping_add_unsigned":
        return Int(bv.add(x, y))
    if name == "wrapping_mul":
        return Int(bv.umul_wide(x, y))
    if name == "wrapping_neg":
        return Int(bv.neg(x))
    if name == "wrapping_shl":
        return Int(bv.shl(x, y))
    if name == "wrapping_shr":
        return Int(bv.ashr(x, y) if signed else bv.lshr(x, y))
    if name == "overflowing_add":
        s, c = bv.add_c(x, y)
        ov = Mx.AND(Mx.NOT(Mx.XOR(x[-1], y[-1])), Mx.XOR(x[-1], s[-1])) if signed else c[-1]
        return Agg((Int(s), bool_int(ov)))
    if name == "overflowing_sub":
        s, br = bv.sub_c(x, y)
        ov = Mx.AND(Mx.XOR(x[-1], y[-1]), Mx.XOR(x[-1], s[-1])) if signed else br[-1]
        return Agg((Int(s), bool_int(ov)))
    if name == "overflowing_add_unsigned":
        # iN + uN: overflow iff the mathematical result exceeds iN::MAX
        s, c = bv.add_c(x, y)
        # result as (w+1)-bit: sext(x) + zext(y)
        w = len(x)
        wide = bv.add(bv.sext(x, w + 1), bv.zext(y, w + 1))
        ov = Mx.XOR(wide[w], wide[w - 1])
        return Agg((Int(s), bool_int(ov)))
    if name == "overflowing_sub_unsigned":
        w = len(x)
        s = bv.sub(x, y)
        wide = bv.sub(bv.sext(x, w + 1), bv.zext(y, w + 1))
        ov = Mx.XOR(wide[w], wide[w - 1])
        return Agg((Int(s), bool_int(ov)))
    if name == "checked_add_signed":
        return m_checked_add_signed(ip, st, fr, t, args)
    if name == "checked_add":
        s, c = bv.add_c(x, y)
        ov = Mx.AND(Mx.NOT(Mx.XOR(x[-1], y[-1])), Mx.XOR(x[-1], s[-1])) if signed else c[-1]
        return [(Mx.NOT(ov), Enum(SOME, [Int(s)])), (ov, Enum(NONE, []))]
    if name == "checked_sub":
        s, br = bv.sub_c(x, y)
        ov = Mx.AND(Mx.XOR(x[-1], y[-1]), Mx.XOR(x[-1], s[-1])) if signed else br[-1]
        return [(Mx.NOT(ov), Enum(SOME, [Int(s)])), (ov, Enum(NONE, []))]
    if name == "rotate_left" or name == "rotate_right":
        n = bv.to_int(y)
        if n is not None:
            w = len(x)
            n %= w
            if name == "rotate_left":
                return Int(x[w - n:] + x[: w - n])
            return Int(x[n:] + x[:n])
    if name == "to_be_bytes":
        w = len(x)
        return Agg([Int(x[w - 8 * (i + 1): w - 8 * i]) for i in range(w // 8)])
    if name == "to_le_bytes":
        w = len(x)
        return Agg([Int(x[8 * i: 8 * i + 8]) for i in range(w // 8)])
    if name == "rem_euclid":
        # Euclidean remainder by a positive power of two = the low bits (two's complement), for signed and unsigned operands
        m_ = bv.to_int(y)
        if m_ is not None and m_ > 0 and (m_ & (m_ - 1)) == 0 and (not signed or m_ < (1 << (len(x) - 1))):
            k_ = m_.bit_length() - 1
            return Int(tuple(x[:k_]) + (0,) * (len(x) - k_))
    if name == "saturating_add" and not signed:
        s_, c_ = bv.add_c(x, y)
        return Int(bv.ite(c_[-1], bv.const((1 << len(x)) - 1, len(x)), s_))
    if name in ("saturating_sub",):
        s, br = bv.sub_c(x, y)
        if not signed:
            return Int(bv.ite(br[-1], bv.const(0, len(x)), s))
    ip.unknown_callees["int-method:" + name] = ip.unknown_callees.get("int-method:" + name, 0) + 1
    st.tag("unknown-callee")
    return ip.opaque_of_type(t["dest"]["ty"], "int:" + name)


_FROM_INT = re.compile(r"^<([iu])(8|16|32|64|128|size) as std::convert::(From|Into)<([iu]|bool)(8|16|32|64|128|size)?>>::(from|into)$")


def m_int_convert(ip, st, fr, t, args):
    a = args[0]
    dst = ip.int_info(t["dest"]["ty"])
    src_t = ip.operand_ty(t["args"][0])
    sii = ip.int_info(src_t)
    if isinstance(a, Int) and dst:
        return Int(bv.cast(a.bits, dst[0], sii[1] if sii else False))
    return Opaque("convert")


def m_into_generic(ip, st, fr, t, args):
    """`x.into()` on a type PARAMETER inside a generic function of the crate (`fn f<T: Into<i32>>(v: T)`): the body is analysed with the
    caller's value; the source type (width, signedness) is that of the caller's argument"""
    a = args[0]
    dst = ip.int_info(t["dest"]["ty"])
    op = t["args"][0]
    if not (isinstance(a, Int) and dst and op["k"] in ("copy", "move") and not op["p"]["p"]):
        return None
    l = op["p"]["l"]
    # follow a plain move chain back to a parameter of this body
    hops = 0
    while hops < 4 and not (1 <= l <= fr.body.get("argc", -1)):
        src = None
        for bl in fr.body["blocks"]:
            for s_ in bl["st"]:
                if s_["k"] == "assign" and not s_["p"]["p"] and s_["p"]["l"] == l and s_["r"]["k"] == "use" and s_["r"]["o"]["k"] in ("copy", "move") and not s_["r"]["o"]["p"]["p"]:
                    src = s_["r"]["o"]["p"]["l"]
        if src is None:
            break
        l = src
        hops += 1
    if len(st.frames) < 2:
        return None
    caller = st.frames[-2]
    ct = caller.body["blocks"][caller.bb]["term"]
    if ct["k"] != "call" or not (1 <= l <= len(ct["args"])):
        return None
    sii = ip.int_info(ip.operand_ty(ct["args"][l - 1]))
    if not sii or sii[0] != len(a.bits):
        return None
    return Int(bv.cast(a.bits, dst[0], sii[1]))


def is_int_convert(path, full):
    if path.startswith("std::convert::num::<impl std::convert::From<") and path.endswith(">::from"):
        return True
    return bool(_FROM_INT.match(full)) or full.startswith("<u") and "as std::convert::From<" in full and full.endswith(">::from")


# ---------------------------------------------------------------- Result / Option combinators (closures are bodies of the crate)
def _closure_call(ip, st, t, argi, argvals, transform):
    """continue in the body of the closure passed as argument argi (tail call); None when it is not a closure of the crate"""
    try:
        cty = ip.types[ip.operand_ty(t["args"][argi])]
    except Exception:
        return None
    while cty["k"] in ("ref", "ptr"):
        cty = ip.types[cty["to"]]
    if cty["k"] == "fndef":
        key = cty.get("fn") or cty.get("path")
        if key in ip.f.bodies:
            return ("tailcall", key, list(argvals), transform)
        return None
    if cty["k"] != "closure" or cty.get("path") not in ip.f.bodies:
        return None
    body = ip.f.bodies[cty["path"]]
    clos = t["_argvals"][argi]
    envt = ip.types[body["locals"][1]["ty"]]
    if envt["k"] == "ref" and not isinstance(clos, Ref):
        tmp = ("tmpenv", st.count("tmpenv"))
        st.mem[tmp] = clos
        clos = Ref(tmp, ())
    return ("tailcall", cty["path"], [clos] + list(argvals), transform)


def _variants(full):
    is_opt = "option::Option" in full.split("::<")[0] or full.startswith("std::option::Option") or full.startswith("core::option::Option")
    return (SOME, NONE) if is_opt else (OK, ERR)


def m_combinator(ip, st, fr, t, args):
    path = t["callee"]["path"] or ""
    name = path.split("::")[-1]
    is_opt = path.startswith("std::option::Option") or path.startswith("core::option::Option")
    good, bad = (SOME, NONE) if is_opt else (OK, ERR)
    v = args[0]
    if isinstance(v, Ref):
        v = ip.read_loc(st, v.root, v.path)
    if not isinstance(v, Enum):
        return None
    t = dict(t)
    t["_argvals"] = args
    payload = list(v.fields)
    if name == "map":
        if v.variant != good:
            return v
        return _closure_call(ip, st, t, 1, payload[:1], lambda s, r: Enum(good, [r]))
    if name == "map_err" and not is_opt:
        if v.variant == OK:
            return v
        return _closure_call(ip, st, t, 1, payload[:1], lambda s, r: Enum(ERR, [r]))
    if name == "and_then":
        if v.variant != good:
            return v
        return _closure_call(ip, st, t, 1, payload[:1], None)
    if name == "or_else":
        if v.variant == good:
            return v
        return _closure_call(ip, st, t, 1, payload[:1] if not is_opt else [], None)
    if name == "unwrap_or":
        return payload[0] if v.variant == good else args[1]
    if name == "unwrap_or_else":
        if v.variant == good:
            return payload[0]
        return _closure_call(ip, st, t, 1, payload[:1] if not is_opt else [], None)
    if name == "ok" and not is_opt:
        return Enum(SOME, payload[:1]) if v.variant == OK else Enum(NONE, [])
    if name == "err" and not is_opt:
        return Enum(SOME, payload[:1]) if v.variant == ERR else Enum(NONE, [])
    if name == "ok_or" and is_opt:
        return Enum(OK, payload[:1]) if v.variant == SOME else Enum(ERR, [args[1]])
    if name == "ok_or_else" and is_opt:
        if v.variant == SOME:
            return Enum(OK, payload[:1])
        return _closure_call(ip, st, t, 1, [], lambda s, r: Enum(ERR, [r]))
    if name == "or" :
        return v if v.variant == good else args[1]
    if name == "and":
        return args[1] if v.variant == good else v
    if name == "map_or":
        if v.variant != good:
            return args[1]
        return _closure_call(ip, st, t, 2, payload[:1], None)
    if name in ("copied", "cloned") and is_opt:
        if v.variant != SOME:
            return v
        p0 = payload[0]
        if isinstance(p0, Ref):
            p0 = ip.read_loc(st, p0.root, p0.path)
        return Enum(SOME, [p0])
    return None


def is_combinator(path, full):
    if not (path.startswith("std::result::Result::<T, E>::") or path.startswith("std::option::Option::<T>::") or
            path.startswith("core::result::Result::<T, E>::") or path.startswith("core::option::Option::<T>::") or
            path.startswith("std::option::Option::<&T>::") or path.startswith("std::option::Option::<&mut T>::") or
            path.startswith("core::option::Option::<&T>::") or path.startswith("core::option::Option::<&mut T>::")):
        return False
    return path.split("::")[-1] in ("map", "map_err", "and_then", "or_else", "unwrap_or", "unwrap_or_else", "ok", "err", "ok_or", "ok_or_else", "or", "and", "map_or", "copied", "cloned")


def m_bool_then(ip, st, fr, t, args):
    c = args[0]
    if not isinstance(c, Int):
        return None
    name = (t["callee"]["path"] or "").split("::")[-1]
    cond = c.bits[0]
    if name == "then_some":
        return [(cond, Enum(SOME, [args[1]])), (bv.M.NOT(cond), Enum(NONE, []))]
    if name == "then":
        t2 = dict(t)
        t2["_argvals"] = args
        r = _closure_call(ip, st, t2, 1, [], lambda s, r_: Enum(SOME, [r_]))
        if r is None:
            return None
        return [("call", cond, r[1], r[2], r[3], None), (bv.M.NOT(cond), Enum(NONE, []))]
    return None


def m_rangeincl_new(ip, st, fr, t, args):
    if isinstance(args[0], Int) and isinstance(args[1], Int):
        return Opaque("rangeincl", (args[0].bits, args[1].bits))
    return None


def m_range_contains(ip, st, fr, t, args):
    r = args[0]
    if isinstance(r, Ref):
        r = ip.read_loc(st, r.root, r.path)
    x = args[1]
    if isinstance(x, Ref):
        x = ip.read_loc(st, x.root, x.path)
    if not isinstance(x, Int):
        return None
    full = t["callee"].get("full") or ""
    signed = False
    m = re.search(r"Range(?:Inclusive)?::<([iu])(\d+|size)>", full)
    if m:
        signed = m.group(1) == "i"
    le = (lambda a, b: bv.M.NOT(bv.slt(b, a))) if signed else bv.ule
    lt = bv.slt if signed else bv.ult
    if isinstance(r, Opaque) and r.tag == "rangeincl" and r.data[0] is not None:
        lo, hi = r.data[0], r.data[1]
        return Int((bv.M.AND(le(lo, x.bits), le(x.bits, hi)),))
    if isinstance(r, Agg) and len(r.fields) == 2 and all(isinstance(z, Int) for z in r.fields) and "RangeInclusive" not in full:
        return Int((bv.M.AND(le(r.fields[0].bits, x.bits), lt(x.bits, r.fields[1].bits)),))
    return None


def m_partial_ne(ip, st, fr, t, args):
    """default PartialEq::ne: the negation of the type's own eq (a derived body of the crate)"""
    decl = t["callee"].get("decl") or ""
    if not decl.endswith("::ne"):
        return None
    key = decl[:-4] + "::eq"
    if key not in ip.f.bodies:
        return None
    return ("tailcall", key, list(args), lambda s, r: Int((bv.M.NOT(r.bits[0]),)) if isinstance(r, Int) else Opaque("ne"))


def m_slice_get(ip, st, fr, t, args):
    """<[T]>::get(i) on an array of known length: Some(&a[i]) for i < len (one outcome per feasible element), None otherwise"""
    a = args[0]
    if isinstance(a, Agg) and unwrap_ref(a) is not None:
        a = unwrap_ref(a)
    if not isinstance(a, Ref) or not isinstance(args[1], Int):
        return None
    arr = ip.read_loc(st, a.root, a.path)
    if isinstance(arr, SymArr):
        # an abstract array (register file, stores): Some(&a[i]) exactly when i < len
        from interp import SymIdx
        i = args[1].bits
        inb = bv.ult(i, bv.const(arr.n, len(i)))
        nb = max(1, (arr.n - 1).bit_length())
        return [(inb, Enum(SOME, [Ref(a.root, a.path + (SymIdx(tuple(i[:nb])),))])), (bv.M.NOT(inb), Enum(NONE, []))]
    if not isinstance(arr, Agg) or len(arr.fields) > 64:
        return None
    i = args[1].bits
    n = len(arr.fields)
    outs = []
    for k in range(n):
        outs.append((bv.eq(i, bv.const(k, len(i))), Enum(SOME, [Ref(a.root, a.path + (k,))])))
    outs.append((bv.ule(bv.const(n, len(i)), i), Enum(NONE, [])))
    return outs


# ---------------------------------------------------------------- small concrete iterators (fixed-size loops are unrolled)
def _it_next(ip, st, itv):
    """advance an iterator value: returns (outcomes list of (cond, item or None), new iterator value per outcome) as
    a list of (cond, item_or_None, new_value)"""
    if isinstance(itv, Opaque) and itv.tag == "citer":
        items, pos = itv.data
        if pos < len(items):
            return [(None, items[pos], Opaque("citer", (items, pos + 1)))]
        return [(None, None, itv)]
    if isinstance(itv, Agg) and itv.tag == "rangefrom" and len(itv.fields) == 1 and isinstance(itv.fields[0], Int):
        a = itv.fields[0]
        return [(None, a, Agg([Int(bv.add(a.bits, bv.const(1, len(a.bits))))], "rangefrom"))]
    if isinstance(itv, Opaque) and itv.tag == "cstep":
        # (start..).step_by(k): start, start + k, ...
        abits, step = itv.data
        return [(None, Int(abits), Opaque("cstep", (bv.add(abits, bv.const(step, len(abits))), step)))]
    if isinstance(itv, Agg) and len(itv.fields) == 2 and all(isinstance(x, Int) for x in itv.fields) and itv.tag in (None, "range"):
        a, b = itv.fields
        c = bv.ult(a.bits, b.bits)
        return [(c, a, Agg([Int(bv.add(a.bits, bv.const(1, len(a.bits)))), b], itv.tag)), (bv.M.NOT(c), None, itv)]
    if isinstance(itv, Opaque) and itv.tag == "czip":
        l, r = itv.data
        out = []
        for (c1, i1, n1) in _it_next(ip, st, l) or []:
            if i1 is None:
                out.append((c1, None, itv))
                continue
            for (c2, i2, n2) in _it_next(ip, st, r) or []:
                c = c1 if c2 is None else (c2 if c1 is None else bv.M.AND(c1, c2))
                out.append((c, None if i2 is None else Agg([i1, i2]), Opaque("czip", (n1, n2))))
        return out
    if isinstance(itv, Opaque) and itv.tag == "cenum":
        inner, k = itv.data
        out = []
        for (c1, i1, n1) in _it_next(ip, st, inner) or []:
            out.append((c1, None if i1 is None else Agg([Int(bv.const(k, 64)), i1]), Opaque("cenum", (n1, k + 1))))
        return out
    return None


def m_citer_new(ip, st, fr, t, args):
    """into_iter / iter on an array of known length"""
    a = args[0]
    path = t["callee"]["path"] or ""
    if isinstance(a, Opaque) and a.tag in ("citer", "czip", "cenum", "cstep"):
        return a
    if isinstance(a, Agg) and a.tag in ("rangefrom", "range"):
        return a
    try:
        aty = ip.types[ip.operand_ty(t["args"][0])]
    except Exception:
        aty = {}
    if isinstance(a, Agg) and a.tag is None and aty.get("k") == "adt" and all(isinstance(x, Int) for x in a.fields):
        if (aty.get("path") or "").endswith("ops::RangeFrom") and len(a.fields) == 1:
            return Agg(a.fields, "rangefrom")
        if (aty.get("path") or "").endswith("ops::Range") and len(a.fields) == 2:
            return Agg(a.fields, "range")
    if isinstance(a, Agg) and unwrap_ref(a) is not None:
        a = unwrap_ref(a)
    if isinstance(a, Ref):
        arr = ip.read_loc(st, a.root, a.path)
        if isinstance(arr, Agg) and arr.tag is None and len(arr.fields) <= 16 and _is_array_ty(ip, t["args"][0], True):
            return Opaque("citer", (tuple(Ref(a.root, a.path + (k,)) for k in range(len(arr.fields))), 0))
        return None
    if isinstance(a, Agg) and a.tag is None and len(a.fields) <= 16 and _is_array_ty(ip, t["args"][0], False):
        return Opaque("citer", (tuple(a.fields), 0))
    return None


def _is_array_ty(ip, operand, by_ref):
    try:
        ty = ip.types[ip.operand_ty(operand)]
        while by_ref and ty["k"] in ("ref", "ptr"):
            ty = ip.types[ty["to"]]
        return ty["k"] in ("array", "slice")
    except Exception:
        return False


def m_citer_next(ip, st, fr, t, args):
    r = args[0]
    if not isinstance(r, Ref):
        return None
    itv = ip.read_loc(st, r.root, r.path)
    res_ = _it_next(ip, st, itv)
    if res_ is None:
        return None
    outs = []
    for (c, item, newv) in res_:
        def upd(s, r=r, newv=newv):
            ip.write_loc(s, r.root, r.path, newv)
        outs.append((c, Enum(SOME, [item]) if item is not None else Enum(NONE, []), upd))
    return outs


def m_zip(ip, st, fr, t, args):
    l = m_citer_new(ip, st, fr, {"callee": t["callee"], "args": [t["args"][0]]}, [args[0]])
    r = m_citer_new(ip, st, fr, {"callee": t["callee"], "args": [t["args"][1]]}, [args[1]])
    if l is None or r is None:
        return None
    return Opaque("czip", (l, r))


def m_step_by(ip, st, fr, t, args):
    """(a..).step_by(constant)"""
    l = m_citer_new(ip, st, fr, {"callee": t["callee"], "args": [t["args"][0]]}, [args[0]])
    k = bv.to_int(args[1].bits) if isinstance(args[1], Int) else None
    if isinstance(l, Agg) and l.tag == "rangefrom" and k:
        return Opaque("cstep", (tuple(l.fields[0].bits), k))
    return None


def m_enumerate(ip, st, fr, t, args):
    l = m_citer_new(ip, st, fr, {"callee": t["callee"], "args": [t["args"][0]]}, [args[0]])
    if l is None:
        return None
    return Opaque("cenum", (l, 0))


_TRYFROM = re.compile(r"TryFrom<([iu])(8|16|32|64|128|size)> for ([iu])(8|16|32|64|128|size)>::try_from$")


def m_try_from_int(ip, st, fr, t, args):
    m = _TRYFROM.search(t["callee"]["path"] or "") or _TRYFROM.search(t["callee"].get("full") or "")
    a = args[0]
    if not m or not isinstance(a, Int):
        return None
    s1 = m.group(1) == "i"
    s2 = m.group(3) == "i"
    w1 = len(a.bits)
    w2 = 64 if m.group(4) == "size" else int(m.group(4))
    conv = bv.cast(a.bits, w2, s1)
    back = bv.cast(conv, w1, s2)
    fits = bv.eq(back, a.bits)
    if s1 != s2:
        fits = bv.M.AND(fits, bv.M.NOT(conv[-1] if not s1 else a.bits[-1]))
    return [(fits, Enum(OK, [Int(conv)])), (bv.M.NOT(fits), Enum(ERR, [Opaque("TryFromIntError")]))]


def m_iter_search(ip, st, fr, t, args):
    """find / position / any / all over a small concrete iterator: the closure body is evaluated on the items in order"""
    name = (t["callee"]["path"] or "").split("::")[-1]
    it = args[0]
    itref = it if isinstance(it, Ref) else None
    if itref is not None:
        it = ip.read_loc(st, itref.root, itref.path)
    if not (isinstance(it, Opaque) and it.tag == "citer"):
        return None
    items, pos = it.data
    items = items[pos:]
    if len(items) > 32:
        return None
    try:
        cty = ip.types[ip.operand_ty(t["args"][1])]
    except Exception:
        return None
    if cty.get("k") != "closure" or cty.get("path") not in ip.f.bodies:
        return None
    ckey = cty["path"]
    cbody = ip.f.bodies[ckey]
    envt = ip.types[cbody["locals"][1]["ty"]]
    clos = args[1]
    env = clos
    if envt["k"] == "ref" and not isinstance(clos, Ref):
        tmp = ("tmpenv", st.count("tmpenv"))
        st.mem[tmp] = clos
        env = Ref(tmp, ())
    by_ref_arg = name == "find"         # find's predicate takes &Item, the others take Item

    def final():
        if name == "find" or name == "position":
            return Enum(NONE, [])
        return Int((1,)) if name == "all" else Int((0,))

    def hit(k):
        if name == "find":
            return Enum(SOME, [items[k]])
        if name == "position":
            return Enum(SOME, [Int(bv.const(k, 64))])
        return Int((1,)) if name == "any" else Int((0,))

    def step(k, cond, s_):
        if k == len(items):
            return (cond, final())
        item = items[k]
        arg = item
        if by_ref_arg:
            tmp = ("finditem", s_.count("finditem"))
            s_.mem[tmp] = item        # (the state that is about to be forked for this call)
            arg = Ref(tmp, ())

        def transform(st2, ret, k=k):
            if not isinstance(ret, Int):
                st2.tag("unknown-callee")
                return final()
            b = ret.bits[0]
            stop_on = b if name != "all" else bv.M.NOT(b)
            return [(stop_on, hit(k)), step(k + 1, bv.M.NOT(stop_on), st2)]
        return ("call", cond, ckey, [env, arg], transform, None)
    return [step(0, None, st)]


def is_range_index(path, full):
    return (path.endswith("::index") or path.endswith("::index_mut")) and ("ops::Range" in full) and ("[" in full or "Vec<" in full)


def m_cell(ip, st, fr, t, args):
    """std::cell::Cell<T> is transparent: new(v) = v, get(&c) = *c, set(&c, v): *c = v, replace / take likewise"""
    name = (t["callee"]["path"] or "").split("::")[-1]
    if name == "new":
        return args[0]
    c = args[0]
    if not isinstance(c, Ref):
        return None
    if name == "get":
        return ip.read_loc(st, c.root, c.path)
    if name == "set":
        ip.write_loc(st, c.root, c.path, args[1])
        return UNIT
    if name == "replace":
        old = ip.read_loc(st, c.root, c.path)
        ip.write_loc(st, c.root, c.path, args[1])
        return old
    return None


def m_controlflow_test(ip, st, fr, t, args):
    """ControlFlow::is_break / is_continue (Continue = variant 0, Break = variant 1)"""
    v = args[0]
    if isinstance(v, Ref):
        v = ip.read_loc(st, v.root, v.path)
    if not isinstance(v, Enum):
        return None
    name = (t["callee"]["path"] or "").split("::")[-1]
    isb = 1 if v.variant == 1 else 0
    return Int((isb if name == "is_break" else 1 - isb,))


def m_default_scalar(ip, st, fr, t, args):
    """<integer / bool as Default>::default() = 0 / false"""
    ii = ip.int_info(t["dest"]["ty"])
    if ii is None:
        return None
    return Int(bv.const(0, ii[0]))


def standard_models():
    models = {
        "<std::result::Result<T, E> as std::ops::Try>::branch": m_try_branch,
        "<std::option::Option<T> as std::ops::Try>::branch": m_try_branch,
        "<std::result::Result<T, F> as std::ops::FromResidual<std::result::Result<std::convert::Infallible, E>>>::from_residual": m_from_residual,
        "<std::option::Option<T> as std::ops::FromResidual<std::option::Option<std::convert::Infallible>>>::from_residual": m_from_residual,
        "std::option::Option::<T>::ok_or_else": m_ok_or_else,
        "std::sync::RwLock::<T>::read": m_rwlock_read,
        "<std::sync::RwLockReadGuard<'_, T> as std::ops::Deref>::deref": m_guard_deref,
        "std::io::_print": m_unit,
        "std::option::Option::<T>::get_or_insert": m_get_or_insert,
        "std::option::Option::<T>::take": m_option_take,
        "std::result::Result::<T, E>::unwrap": m_unwrap,
        "std::option::Option::<T>::unwrap": m_unwrap,
        "std::result::Result::<T, E>::expect": m_unwrap,
        "std::option::Option::<T>::expect": m_unwrap,
        "std::result::Result::<T, E>::is_err": m_is_variant(ERR),
        "std::result::Result::<T, E>::is_ok": m_is_variant(OK),
        "std::option::Option::<T>::is_some": m_is_variant(SOME),
        "std::option::Option::<T>::is_none": m_is_variant(NONE),
        "anyhow::Context::with_context": m_identity0,
        "anyhow::Context::context": m_identity0,
        "<std::result::Result<T, E> as anyhow::Context<T, E>>::with_context": m_identity0,
        "<std::result::Result<T, E> as anyhow::Context<T, E>>::context": m_identity0,
        "anyhow::__private::format_err": m_anyhow,
        "anyhow::Error::msg": m_anyhow,
        "anyhow::__private::must_use": m_identity0,
        "std::hint::must_use": m_identity0,
        "std::cmp::Ord::max": m_ord_minmax,
        "std::cmp::Ord::min": m_ord_minmax,
        "std::intrinsics::discriminant_value": m_discriminant_value,
        "core::intrinsics::discriminant_value": m_discriminant_value,
        "anyhow::error::<impl anyhow::Error>::msg": m_anyhow,
        "std::fmt::format": m_opaque("string"),
        "alloc::fmt::format": m_opaque("string"),
    }
    def m_host_log(ip, st, fr, t, args):
        # logging: whether a record is emitted depends on the host's log level only (both branches are followed; they differ in output)
        return ip.opaque_of_type(t["dest"]["ty"], "host")
    patterns = [
        (lambda p, f: (p or "").startswith("log::") or ((p or "") in ("std::cmp::PartialOrd::le", "std::cmp::PartialOrd::ge", "std::cmp::PartialOrd::lt", "std::cmp::PartialOrd::gt") and "log::Level" in (f or "")), m_host_log),
        (lambda p, f: bool(_INT_TY.match(p or "")), int_method),
        (is_int_convert, m_int_convert),
        (lambda p, f: (f or "").startswith("<T as std::convert::Into<") and (f or "").endswith(">::into"), m_into_generic),
        (is_range_index, m_range_index),
        (is_combinator, m_combinator),
        (lambda p, f: bool(_TRYFROM.search(p or "")), m_try_from_int),
        (lambda p, f: (p or "").startswith("anyhow::error::<impl anyhow::Error>::context"), m_identity0),
        (lambda p, f: p.endswith("::into_iter") or p in ("core::slice::<impl [T]>::iter", "core::array::<impl [T; N]>::iter"), m_citer_new),
        (lambda p, f: p.endswith("Iterator>::next") and any(x in (f or "") for x in ("array::IntoIter<", "slice::Iter<", "ops::RangeFrom<", "ops::Range<", "iter::Zip<", "iter::Enumerate<", "iter::StepBy<")), m_citer_next),
        (lambda p, f: p == "std::iter::Iterator::zip", m_zip),
        (lambda p, f: p == "std::iter::Iterator::step_by", m_step_by),
        (lambda p, f: p.split("::")[-1] in ("find", "position", "any", "all") and ("iter::Iterator" in p), m_iter_search),
        (lambda p, f: p == "std::iter::Iterator::enumerate", m_enumerate),
        (lambda p, f: p in ("core::slice::<impl [T]>::get", "std::slice::<impl [T]>::get", "core::slice::<impl [T]>::get_mut", "std::slice::<impl [T]>::get_mut") and "::<usize>" in (f or ""), m_slice_get),
        (lambda p, f: p in ("std::cmp::PartialEq::ne", "core::cmp::PartialEq::ne"), m_partial_ne),
        (lambda p, f: p in ("std::ops::RangeInclusive::<Idx>::new", "core::ops::RangeInclusive::<Idx>::new"), m_rangeincl_new),
        (lambda p, f: p in ("std::ops::RangeInclusive::<Idx>::contains", "core::ops::RangeInclusive::<Idx>::contains", "std::ops::Range::<Idx>::contains", "core::ops::Range::<Idx>::contains"), m_range_contains),
        (lambda p, f: p in ("core::bool::<impl bool>::then_some", "std::bool::<impl bool>::then_some", "core::bool::<impl bool>::then", "std::bool::<impl bool>::then"), m_bool_then),
        (lambda p, f: (p or "").startswith("core::fmt::rt::") or (p or "").startswith("std::fmt::Arguments") or (p or "").startswith("core::fmt::Arguments") or (p or "").startswith("std::fmt::rt::"), m_opaque("fmt")),
        (lambda p, f: (p or "").endswith(" as std::default::Default>::default") and (p or "")[1:].split(" ")[0] in ("u8", "u16", "u32", "u64", "u128", "usize", "i8", "i16", "i32", "i64", "i128", "isize", "bool"), m_default_scalar),
        # `&x[..]` / `&mut x[..]`: the whole array / slice / vector as a slice - the same place
        (lambda p, f: "RangeFull" in ((f or "") + (p or "")) and ((p or "").endswith("::index") or (p or "").endswith("::index_mut")), m_identity0),
        (lambda p, f: (p or "").startswith("std::cell::Cell::<T>::") or (p or "").startswith("core::cell::Cell::<T>::") or (p or "").startswith("std::cell::Cell::<"), m_cell),
        (lambda p, f: "ops::ControlFlow" in (p or "") and (p or "").split("::")[-1] in ("is_break", "is_continue"), m_controlflow_test),
        (lambda p, f: (p or "").startswith("anyhow::__private::"), m_anyhow),
        (lambda p, f: (p or "").startswith("anyhow::context::<impl anyhow::Context<") and ((p or "").endswith("::with_context") or (p or "").endswith("::context")), m_identity0),
    ]
    return models, patterns
