"""Instruction-level analysis: run Cpu::exec over a symbolic CPU and collect, for
every trace, the path condition, the final architectural state and the ordered
primitive effects (the instruction effect summary, IES)."""
import bv
from interp import Agg, Enum, Int, Interp, Opaque, Ref, SymArr, UNIT, bool_int, InterpError
import models

CPU_ROOT = ("h", "cpu")
KIND_NAMES = ["I", "J", "K", "L", "M", "N"]
MAX_COST_MULT = 14   # validated by the C19 rule: every leaf multiplier of calc_state_with_addr is <= 14


class Isa:
    def __init__(self, facts):
        self.f = facts
        self.cpu_fields = facts.struct_fields("cpu::Cpu")
        self.fi = {n: i for i, n in enumerate(self.cpu_fields)}
        st = facts.types[facts.type_by_path["cpu::StateType"]]
        self.kind_names = [v["n"] for v in st["variants"]]
        ccr = facts.types[facts.type_by_path["cpu::CCR"]]
        self.ccr_names = [v["n"] for v in ccr["variants"]]
        self.k_exec = facts.body("cpu::Cpu::exec")["key"]
        self.k_fetch = facts.body("cpu::Cpu::fetch")["key"]
        self.k_busread = facts.body("bus::Bus::read")["key"]
        self.k_buswrite = facts.body("bus::Bus::write")["key"]
        self.k_cs = facts.body("cpu::Cpu::calc_state")["key"]
        self.k_csa = facts.body("cpu::Cpu::calc_state_with_addr")["key"]
        mes = facts.find("trapa_emulate_mes2")
        self.k_mes = mes[0] if len(mes) == 1 else None
        # calling contexts of the cost function met by the analysis: (calling body, callee line) -> [contexts, contexts whose count can exceed the u8 budget, witness count]
        self.cost_sites = {}

    # ------------------------------------------------------------ symbolic cpu
    def fresh_cpu(self, pc24=True):
        pcb = bv.data_bv("pc", 24) + ((0,) * 8) if pc24 else bv.data_bv("pc", 32)
        vals = []
        for n in self.cpu_fields:
            if n == "pc":
                vals.append(Int(pcb))
            elif n == "operating_pc":
                vals.append(Int(bv.data_bv("opc", 32)))
            elif n == "ccr":
                vals.append(Int(bv.ccr_bv()))
            elif n == "er":
                vals.append(SymArr("er", 8, 32))
            else:
                vals.append(Opaque("cpu." + n))
        return Agg(vals)

    def cpu_get(self, st, name):
        return st.mem[CPU_ROOT].fields[self.fi[name]]

    def cpu_set(self, ip, st, name, val):
        ip.write_loc(st, CPU_ROOT, (self.fi[name],), val)

    # ------------------------------------------------------------ primitives
    def p_fetch(self, ip, st, fr, t, args):
        k = st.count("fetch") + 1
        w = bv.word_bv(k)
        pc = self.cpu_get(st, "pc").bits
        st.add_eff(("fetch", k, pc))
        self.cpu_set(ip, st, "operating_pc", Int((0,) + pc[1:]))
        self.cpu_set(ip, st, "pc", Int(bv.add(pc, bv.const(2, 32))))
        return Int(w)

    def _fail_fork(self, ip, st, okval_fn, eff_ok, eff_fail, tagname):
        i = st.count("ctl")
        okv = bv.ctl_var("ok%d" % i, i)

        def on_ok(s):
            s.add_eff(eff_ok)

        def on_fail(s):
            s.add_eff(eff_fail)
            s.tag("prim-failed")

        return [(okv, okval_fn(), on_ok), (bv.M.NOT(okv), Enum(models.ERR, [Opaque(tagname)]), on_fail)]

    def p_bus_read(self, ip, st, fr, t, args):
        addr = args[1]
        if not isinstance(addr, Int):
            # the address was computed through something the interpreter does not follow: the trace is imprecise (never a finding)
            st.tag("unknown-callee")
            ip.unknown_callees["<opaque bus.read address: %r>" % (addr,)] = 1
            addr = Int(bv.data_bv("opaque_addr%d" % st.count("opq"), 32))
        k = st.count("memread")
        val = bv.data_bv("m%d" % k, 8)
        return self._fail_fork(ip, st, lambda: Enum(models.OK, [Int(val)]), ("memread", addr.bits, val), ("memread_fail", addr.bits), "buserr")

    def p_bus_write(self, ip, st, fr, t, args):
        addr, val = args[1], args[2]
        if not isinstance(addr, Int) or not isinstance(val, Int):
            st.tag("unknown-callee")
            ip.unknown_callees["<opaque bus.write operand: %r %r in %s>" % (addr, val, st.frames[-1].body["key"].split("::")[-1])] = 1
            if not isinstance(addr, Int):
                addr = Int(bv.data_bv("opaque_addr%d" % st.count("opq"), 32))
            if not isinstance(val, Int):
                val = Int(bv.data_bv("opaque_val%d" % st.count("opq"), 8))
        return self._fail_fork(ip, st, lambda: Enum(models.OK, [UNIT]), ("memwrite", addr.bits, val.bits), ("memwrite_fail", addr.bits), "buserr")

    def _cost(self, ip, st, kind, n, addr, fr=None, t=None):
        if not isinstance(kind, Enum):
            raise InterpError("cost kind not concrete")
        kn = self.kind_names[kind.variant]
        if not isinstance(n, Int):
            raise InterpError("cost count opaque")
        if fr is not None and t is not None:
            # the cost function multiplies count x per-cycle cost in u8: whatever the count is (constant, helper parameter, selected by a
            # decode bit), on this path it must keep count x MAX_COST_MULT within 8 bits (kind N is charged 1 per cycle)
            site = self.cost_sites.setdefault("%s|%s|%s" % (fr.body["key"], t.get("ln"), (t["callee"]["path"] or "").split("::")[-1]), [0, 0, None, kn])
            site[0] += 1
            lim = 255 if kn == "N" else 255 // MAX_COST_MULT
            over = bv.M.AND(st.pc, bv.M.NOT(bv.ule(n.bits, bv.const(lim, len(n.bits)))))
            if over != 0:
                site[1] += 1
                if site[2] is None:
                    a = bv.M.sat_one(over) or {}
                    site[2] = sum((1 << i) for i, b in enumerate(n.bits) if bv.M.eval(b, a))
        if kn == "N":
            st.add_eff(("cost", kn, n.bits, addr, n.bits))
            return Enum(models.OK, [Int(n.bits)])
        if addr is None and kn in ("L", "M"):
            st.add_eff(("cost_fail", kn, n.bits, addr))
            st.tag("prim-failed")
            return Enum(models.ERR, [Opaque("calc_state L/M")])
        k = st.count("cost")
        mult = bv.cost_bv(k)
        bound = bv.ule(mult, bv.const(MAX_COST_MULT, 4))
        res = bv.mul(bv.zext(mult, 8), n.bits) if bv.is_const(n.bits) else bv.umul_wide(bv.zext(mult, 8), n.bits)
        i = st.count("ctl")
        okv = bv.ctl_var("ok%d" % i, i)

        def on_ok(s):
            s.add_eff(("cost", kn, n.bits, addr, res))

        def on_fail(s):
            s.add_eff(("cost_fail", kn, n.bits, addr))
            s.tag("prim-failed")

        return [(bv.M.AND(okv, bound), Enum(models.OK, [Int(res)]), on_ok), (bv.M.AND(bv.M.NOT(okv), bound), Enum(models.ERR, [Opaque("costerr")]), on_fail)]

    def p_calc_state(self, ip, st, fr, t, args):
        return self._cost(ip, st, args[1], args[2], None, fr, t)

    def p_calc_state_with_addr(self, ip, st, fr, t, args):
        a = args[3]
        if not isinstance(a, Int):
            st.tag("unknown-callee")
            ip.unknown_callees["<opaque cost address: %r>" % (a,)] = 1
            a = Int(bv.data_bv("opaque_addr%d" % st.count("opq"), 32))
        return self._cost(ip, st, args[1], args[2], a.bits, fr, t)

    def p_mes(self, ip, st, fr, t, args):
        st.add_eff(("mes",))
        st.tag("mes")
        return [(None, Enum(models.OK, [UNIT])), (None, Enum(models.ERR, [Opaque("mes-err")]), lambda s: s.tag("prim-failed"))]

    def make_interp(self, with_mes_prim=True, **kw):
        prims = {
            self.k_fetch: self.p_fetch,
            self.k_busread: self.p_bus_read,
            self.k_buswrite: self.p_bus_write,
            self.k_cs: self.p_calc_state,
            self.k_csa: self.p_calc_state_with_addr,
        }
        if with_mes_prim and self.k_mes:
            prims[self.k_mes] = self.p_mes
        ms, pats = models.standard_models()
        ip = Interp(self.f, primitives=prims, models=ms, **kw)
        ip.pattern_models = pats
        # the interrupt request queue is not architectural state of an instruction: its content is
        # arbitrary here (pop_front yields any request or none), touching it is recorded as an effect
        ip.pattern_models.append((lambda p, f: "VecDeque" in p and p.endswith("::push_back"), self.m_irq_push))
        ip.pattern_models.append((lambda p, f: "VecDeque" in p and p.endswith("::pop_front"), self.m_irq_pop))
        return ip

    def m_irq_push(self, ip, st, fr, t, args):
        st.add_eff(("irq", "push", args[1].bits if isinstance(args[1], Int) else None))
        return UNIT

    def m_irq_pop(self, ip, st, fr, t, args):
        n = st.count("irq")
        v = bv.data_bv("req%d" % n, 8)
        i = st.count("ctl")
        some = bv.ctl_var("nonempty", i)
        st.add_eff(("irq", "pop", v))
        return [(some, Enum(models.SOME, [Int(v)])), (bv.M.NOT(some), Enum(models.NONE, []))]

    def run_exec(self, w0_constraint=None, **kw):
        """returns (interp, outcomes).  w0_constraint: optional function(w0 bits)->BDD."""
        ip = self.make_interp(**kw)
        w0 = bv.w0_bv()
        cpu = self.fresh_cpu()
        mem = {CPU_ROOT: cpu}
        pc = 1
        if w0_constraint is not None:
            pc = w0_constraint(w0)
        outs = ip.run_all(self.k_exec, [Ref(CPU_ROOT, ()), Int(w0)], mem, pc=pc)
        return ip, outs, w0
