"""Abstract strings: a string value is a term (how it was built), compared structurally.
Used by the control-channel rules (C18) and the MES trap rule (C14)."""
import bv
import models
from interp import Agg, Enum, Int, Opaque, Ref, UNIT


def S(term):
    return Opaque("str", term)


def term_of(ip, st, v, depth=4):
    """follow references to the string term (or None)"""
    while depth > 0 and isinstance(v, Ref):
        v = ip.read_loc(st, v.root, v.path)
        depth -= 1
    if isinstance(v, Opaque) and v.tag == "str":
        return v.data
    if isinstance(v, Opaque) and v.tag in ("strvec", "split"):
        return v.data
    return None


def val_of(ip, st, v, depth=4):
    while depth > 0 and isinstance(v, Ref):
        v = ip.read_loc(st, v.root, v.path)
        depth -= 1
    return v


_eqvars = {}
_lenvars = {}


def reset():
    _eqvars.clear()
    _lenvars.clear()


def eq_var(term, text):
    key = (term, text)
    v = _eqvars.get(key)
    if v is None:
        v = bv.seq_bv("eq%d" % len(_eqvars), 1)[0]
        _eqvars[key] = v
    return v


def eq_vars():
    return dict(_eqvars)


def len_var(term):
    v = _lenvars.get(term)
    if v is None:
        v = bv.seq_bv("len%d" % len(_lenvars), 64)
        _lenvars[term] = v
    return v


def exclusivity():
    """a string equals at most one of the distinct constants it is compared with"""
    Mx = bv.M
    by = {}
    for (term, text), v in _eqvars.items():
        by.setdefault(term, []).append((text, v))
    c = 1
    for term, lst in by.items():
        for i in range(len(lst)):
            for j in range(i + 1, len(lst)):
                if lst[i][0] != lst[j][0]:
                    c = Mx.AND(c, Mx.NOT(Mx.AND(lst[i][1], lst[j][1])))
    return c


def install(ip):
    def m_string_deref(ip_, st, fr, t, args):
        v = val_of(ip_, st, args[0])
        return v if isinstance(v, Opaque) else Opaque("str?", None)

    def m_split(ip_, st, fr, t, args):
        tm = term_of(ip_, st, args[0])
        ch = bv.to_int(args[1].bits) if isinstance(args[1], Int) else None
        return Opaque("split", ("split", tm, ch))

    def m_collect(ip_, st, fr, t, args):
        v = args[0]
        if isinstance(v, Opaque) and v.tag == "split":
            ln = len_var(v.data)
            # str::split always yields at least one item
            return [(bv.ule(bv.const(1, 64), ln), Opaque("strvec", v.data))]
        return Opaque("collected")

    def m_index(ip_, st, fr, t, args):
        v = val_of(ip_, st, args[0])
        if isinstance(v, Opaque) and v.tag == "strvec" and isinstance(args[1], Agg) and len(args[1].fields) == 0:
            return v      # vec[..]: the whole vector as a slice
        k = bv.to_int(args[1].bits) if isinstance(args[1], Int) else None
        if isinstance(v, Opaque) and v.tag == "strvec" and k is not None:
            ln = len_var(v.data)
            inb = bv.ult(bv.const(k, 64), ln)
            root = ("strtmp", st.count("strtmp"))

            def put(s, root=root, v=v, k=k):
                s.mem[root] = S(("field", v.data, k))
            return [(inb, Ref(root, ()), put), ("panic", bv.M.NOT(inb), {"kind": "index-out-of-bounds", "callee": "Vec::index", "index": k})]
        return Opaque("index")

    def m_get(ip_, st, fr, t, args):
        """slice.first() / slice.get(k) on the vector of fields: Some(&field k) iff k < len"""
        v = val_of(ip_, st, args[0])
        name = (t["callee"]["path"] or "").split("::")[-1]
        if name == "first":
            k = 0
        else:
            k = bv.to_int(args[1].bits) if len(args) > 1 and isinstance(args[1], Int) else None
        if not (isinstance(v, Opaque) and v.tag == "strvec") or k is None:
            return None
        ln = len_var(v.data)
        inb = bv.ult(bv.const(k, 64), ln)
        root = ("strtmp", st.count("strtmp"))

        def put(s, root=root, v=v, k=k):
            s.mem[root] = S(("field", v.data, k))
        return [(inb, Enum(models.SOME, [Ref(root, ())]), put), (bv.M.NOT(inb), Enum(models.NONE, []))]

    def m_len(ip_, st, fr, t, args):
        v = val_of(ip_, st, args[0])
        if isinstance(v, Opaque) and v.tag == "strvec":
            return Int(len_var(v.data))
        return Opaque("len")

    def m_streq(ip_, st, fr, t, args):
        a = term_of(ip_, st, args[0])
        b = term_of(ip_, st, args[1])
        if isinstance(a, str) and isinstance(b, str):
            return Int((1 if a == b else 0,))
        if isinstance(b, str) and a is not None:
            return Int((eq_var(a, b),))
        if isinstance(a, str) and b is not None:
            return Int((eq_var(b, a),))
        return Opaque("streq")

    def m_replace(ip_, st, fr, t, args):
        a = term_of(ip_, st, args[0])
        pat = bv.to_int(args[1].bits) if isinstance(args[1], Int) else term_of(ip_, st, args[1])
        rep = term_of(ip_, st, args[2])
        return S(("replace", a, pat, rep))

    def m_add(ip_, st, fr, t, args):
        return S(("concat", term_of(ip_, st, args[0]), term_of(ip_, st, args[1])))

    def m_as_bytes(ip_, st, fr, t, args):
        return S(("bytes", term_of(ip_, st, args[0])))

    def m_clone(ip_, st, fr, t, args):
        v = val_of(ip_, st, args[0])
        return v if isinstance(v, Opaque) else Opaque("clone")
    def ptr_metadata(st, v):
        if isinstance(v, Opaque) and v.tag == "strvec":
            return Int(len_var(v.data))
        return None

    def opaque_cindex(st, v, off):
        # slice patterns: [a, b, ..] reads the elements by constant index (the length was tested before)
        if isinstance(v, Opaque) and v.tag == "strvec":
            return S(("field", v.data, off))
        return None
    ip.ptr_metadata = ptr_metadata
    ip.opaque_cindex = opaque_cindex
    ip.models["<std::string::String as std::ops::Deref>::deref"] = m_string_deref
    ip.models["core::str::<impl str>::split"] = m_split
    ip.models["std::str::<impl str>::split"] = m_split
    ip.models["std::iter::Iterator::collect"] = m_collect
    ip.models["<std::vec::Vec<T, A> as std::ops::Index<I>>::index"] = m_index
    def m_vec_deref(ip_, st, fr, t, args):
        v = val_of(ip_, st, args[0])
        if isinstance(v, Opaque) and v.tag == "strvec":
            return v          # &Vec<&str> -> &[&str]: the same abstract vector
        return None
    ip.models["<std::vec::Vec<T, A> as std::ops::Deref>::deref"] = m_vec_deref
    ip.models["std::vec::Vec::<T, A>::as_slice"] = m_vec_deref
    ip.models["std::vec::Vec::<T, A>::len"] = m_len
    ip.pattern_models.insert(0, (lambda p, f: (p or "").startswith("core::slice::<impl [") and (p or "").endswith("]>::len"), lambda ip_, st, fr, t, args: (m_len(ip_, st, fr, t, args) if isinstance(val_of(ip_, st, args[0]), Opaque) and val_of(ip_, st, args[0]).tag == "strvec" else None)))
    ip.pattern_models.insert(0, (lambda p, f: (p or "").startswith("core::slice::<impl [") and (p or "").split("::")[-1] in ("first",) or
                                 ((p or "").startswith("core::slice::<impl [") and "::get" in (p or "") and (p or "").split("::")[-1].startswith("get")), m_get))
    ip.models["core::str::traits::<impl std::cmp::PartialEq for str>::eq"] = m_streq
    ip.models["std::str::<impl str>::replace"] = m_replace
    ip.models["core::str::<impl str>::replace"] = m_replace
    ip.models["<std::string::String as std::ops::Add<&str>>::add"] = m_add
    ip.models["std::string::String::as_bytes"] = m_as_bytes
    ip.models["<std::string::String as std::clone::Clone>::clone"] = m_clone
