// h8facts: rustc_private driver that dumps the type-checked MIR of the crate being
// compiled as one JSON document (structured places, resolved callees, evaluated
// constants).  Used through RUSTC_WORKSPACE_WRAPPER under `cargo +nightly check`.
//
// Nothing of the analysed crate is executed; this is a serialiser of compiler facts.
#![feature(rustc_private)]
#![allow(clippy::all)]

extern crate rustc_abi;
extern crate rustc_driver;
extern crate rustc_hir;
extern crate rustc_interface;
extern crate rustc_middle;
extern crate rustc_session;
extern crate rustc_span;

use rustc_driver::{Callbacks, Compilation};
use rustc_hir::def::DefKind;
use rustc_hir::def_id::{DefId, LOCAL_CRATE};
use rustc_middle::mir::interpret::{GlobalAlloc, Scalar};
use rustc_middle::mir::*;
use rustc_middle::ty::{self, Instance, Ty, TyCtxt, TypeVisitableExt, TypingEnv};
use rustc_span::Span;
use std::collections::HashMap;
use std::fmt::Write as _;

fn esc(s: &str) -> String {
    let mut o = String::with_capacity(s.len() + 2);
    o.push('"');
    for c in s.chars() {
        match c {
            '"' => o.push_str("\\\""),
            '\\' => o.push_str("\\\\"),
            '\n' => o.push_str("\\n"),
            '\r' => o.push_str("\\r"),
            '\t' => o.push_str("\\t"),
            c if (c as u32) < 0x20 => {
                let _ = write!(o, "\\u{:04x}", c as u32);
            }
            c => o.push(c),
        }
    }
    o.push('"');
    o
}

struct Cx<'tcx> {
    tcx: TyCtxt<'tcx>,
    tymap: HashMap<Ty<'tcx>, usize>,
    tydesc: Vec<String>,
}

impl<'tcx> Cx<'tcx> {
    fn tyid(&mut self, ty: Ty<'tcx>) -> usize {
        // evaluate named array lengths etc. (`[u8; MEMORY_SIZE]`) where the type is closed
        let ty = if !ty.has_non_region_param() && !ty.has_escaping_bound_vars() {
            self.tcx.try_normalize_erasing_regions(TypingEnv::fully_monomorphized(), ty::Unnormalized::new_wip(ty)).unwrap_or(ty)
        } else {
            ty
        };
        if let Some(&i) = self.tymap.get(&ty) {
            return i;
        }
        let id = self.tydesc.len();
        self.tymap.insert(ty, id);
        self.tydesc.push(String::new());
        let d = self.describe(ty);
        self.tydesc[id] = d;
        id
    }

    fn expand_adt(&self, def: ty::AdtDef<'tcx>) -> bool {
        if def.did().is_local() {
            return true;
        }
        let p = self.tcx.def_path_str(def.did());
        matches!(
            p.as_str(),
            "std::result::Result" | "std::option::Option" | "std::ops::ControlFlow" | "core::result::Result" | "core::option::Option" | "core::ops::ControlFlow"
        )
    }

    fn describe(&mut self, ty: Ty<'tcx>) -> String {
        let tcx = self.tcx;
        let s = esc(&format!("{}", ty));
        match ty.kind() {
            ty::Bool => format!("{{\"k\":\"bool\",\"s\":{}}}", s),
            ty::Char => format!("{{\"k\":\"char\",\"s\":{}}}", s),
            ty::Int(i) => format!("{{\"k\":\"int\",\"bits\":{},\"signed\":true,\"s\":{}}}", i.bit_width().unwrap_or(64), s),
            ty::Uint(u) => format!("{{\"k\":\"int\",\"bits\":{},\"signed\":false,\"s\":{}}}", u.bit_width().unwrap_or(64), s),
            ty::Float(_) => format!("{{\"k\":\"float\",\"s\":{}}}", s),
            ty::Str => format!("{{\"k\":\"str\",\"s\":{}}}", s),
            ty::Never => format!("{{\"k\":\"never\",\"s\":{}}}", s),
            ty::Adt(def, args) => {
                let path = esc(&tcx.def_path_str(def.did()));
                let kind = if def.is_enum() {
                    "enum"
                } else if def.is_union() {
                    "union"
                } else {
                    "struct"
                };
                let targs: Vec<String> = args.types().map(|t| self.tyid(t).to_string()).collect();
                let mut out = format!(
                    "{{\"k\":\"adt\",\"path\":{},\"adt\":\"{}\",\"box\":{},\"local\":{},\"args\":[{}],\"s\":{}",
                    path,
                    kind,
                    def.is_box(),
                    def.did().is_local(),
                    targs.join(","),
                    s
                );
                if self.expand_adt(*def) {
                    let mut vs = Vec::new();
                    for (vidx, v) in def.variants().iter_enumerated() {
                        let discr = if def.is_enum() { def.discriminant_for_variant(tcx, vidx).val.to_string() } else { "0".to_string() };
                        let mut fs = Vec::new();
                        for f in v.fields.iter() {
                            let fty = f.ty(tcx, args);
                            let fid = self.tyid(fty);
                            fs.push(format!("{{\"n\":{},\"ty\":{}}}", esc(f.name.as_str()), fid));
                        }
                        vs.push(format!("{{\"n\":{},\"discr\":\"{}\",\"fields\":[{}]}}", esc(v.name.as_str()), discr, fs.join(",")));
                    }
                    let _ = write!(out, ",\"variants\":[{}]", vs.join(","));
                }
                out.push('}');
                out
            }
            ty::Ref(_, t, m) => {
                let id = self.tyid(*t);
                format!("{{\"k\":\"ref\",\"mut\":{},\"to\":{},\"s\":{}}}", m.is_mut(), id, s)
            }
            ty::RawPtr(t, m) => {
                let id = self.tyid(*t);
                format!("{{\"k\":\"ptr\",\"mut\":{},\"to\":{},\"s\":{}}}", m.is_mut(), id, s)
            }
            ty::Array(t, len) => {
                let id = self.tyid(*t);
                let n = len.try_to_target_usize(tcx).map(|v| v.to_string()).unwrap_or_else(|| "null".to_string());
                format!("{{\"k\":\"array\",\"of\":{},\"len\":{},\"s\":{}}}", id, n, s)
            }
            ty::Slice(t) => {
                let id = self.tyid(*t);
                format!("{{\"k\":\"slice\",\"of\":{},\"s\":{}}}", id, s)
            }
            ty::Tuple(ts) => {
                let ids: Vec<String> = ts.iter().map(|t| self.tyid(t).to_string()).collect();
                format!("{{\"k\":\"tuple\",\"of\":[{}],\"s\":{}}}", ids.join(","), s)
            }
            ty::FnDef(did, _) => format!("{{\"k\":\"fndef\",\"path\":{},\"s\":{}}}", esc(&tcx.def_path_str(*did)), s),
            ty::Closure(did, args) => {
                let ups: Vec<String> = args.as_closure().upvar_tys().iter().map(|t| self.tyid(t).to_string()).collect();
                format!(
                    "{{\"k\":\"closure\",\"path\":{},\"upvars\":[{}],\"s\":{}}}",
                    esc(&tcx.def_path_str(*did)),
                    ups.join(","),
                    s
                )
            }
            ty::FnPtr(..) => format!("{{\"k\":\"fnptr\",\"s\":{}}}", s),
            ty::Dynamic(..) => format!("{{\"k\":\"dyn\",\"s\":{}}}", s),
            _ => format!("{{\"k\":\"other\",\"s\":{}}}", s),
        }
    }

    fn line(&self, span: Span) -> usize {
        let sp = span.source_callsite();
        let sm = self.tcx.sess.source_map();
        sm.lookup_char_pos(sp.lo()).line
    }

    fn expn(&self, span: Span) -> String {
        if span.from_expansion() {
            let d = span.ctxt().outer_expn_data();
            let name = match d.kind {
                rustc_span::ExpnKind::Macro(_, sym) => sym.to_string(),
                rustc_span::ExpnKind::Desugaring(k) => format!("desugar:{}", k.descr()),
                _ => "other".to_string(),
            };
            esc(&name)
        } else {
            "null".to_string()
        }
    }

    fn place(&mut self, body: &Body<'tcx>, p: &Place<'tcx>) -> String {
        let tcx = self.tcx;
        let mut pty = PlaceTy::from_ty(body.local_decls[p.local].ty);
        let mut projs = Vec::new();
        for elem in p.projection.iter() {
            let j = match elem {
                ProjectionElem::Deref => "{\"k\":\"deref\"}".to_string(),
                ProjectionElem::Field(fidx, fty) => {
                    let name = match pty.ty.kind() {
                        ty::Adt(def, _) => {
                            let v = pty.variant_index.unwrap_or(rustc_abi::FIRST_VARIANT);
                            def.variant(v).fields[fidx].name.to_string()
                        }
                        _ => fidx.as_usize().to_string(),
                    };
                    let id = self.tyid(fty);
                    format!("{{\"k\":\"field\",\"i\":{},\"n\":{},\"ty\":{}}}", fidx.as_usize(), esc(&name), id)
                }
                ProjectionElem::Index(l) => format!("{{\"k\":\"index\",\"l\":{}}}", l.as_usize()),
                ProjectionElem::ConstantIndex { offset, min_length, from_end } => {
                    format!("{{\"k\":\"cindex\",\"off\":{},\"min\":{},\"from_end\":{}}}", offset, min_length, from_end)
                }
                ProjectionElem::Subslice { from, to, from_end } => {
                    format!("{{\"k\":\"subslice\",\"from\":{},\"to\":{},\"from_end\":{}}}", from, to, from_end)
                }
                ProjectionElem::Downcast(name, vidx) => {
                    let n = name.map(|s| s.to_string()).unwrap_or_default();
                    format!("{{\"k\":\"downcast\",\"v\":{},\"n\":{}}}", vidx.as_usize(), esc(&n))
                }
                _ => "{\"k\":\"opaque\"}".to_string(),
            };
            projs.push(j);
            pty = pty.projection_ty(tcx, elem);
        }
        let fin = self.tyid(pty.ty);
        format!("{{\"l\":{},\"p\":[{}],\"ty\":{}}}", p.local.as_usize(), projs.join(","), fin)
    }

    /// value of a constant of type `ty` stored at `off` in `alloc`, as nested JSON (ints, bools, chars, field-less enums,
    /// tuples / structs / arrays of those); None when the type is outside that fragment
    fn mem_value_json(&mut self, a: &rustc_middle::mir::interpret::Allocation, off: usize, ty: Ty<'tcx>, depth: u32) -> Option<String> {
        let tcx = self.tcx;
        if depth > 4 {
            return None;
        }
        let typing_env = TypingEnv::fully_monomorphized();
        let layout = tcx.layout_of(typing_env.as_query_input(ty)).ok()?;
        let size = layout.size.bytes() as usize;
        if off + size > a.len() {
            return None;
        }
        let read = |lo: usize, n: usize| -> u128 {
            let b = a.inspect_with_uninit_and_ptr_outside_interpreter(lo..lo + n);
            let mut v: u128 = 0;
            for (i, x) in b.iter().enumerate() {
                v |= (*x as u128) << (8 * i);
            }
            v
        };
        if ty.is_integral() || ty.is_bool() || ty.is_char() {
            if size == 0 || size > 16 {
                return None;
            }
            return Some(format!("{{\"int\":\"{}\",\"bits\":{}}}", read(off, size), if ty.is_bool() { 1 } else { size * 8 }));
        }
        match ty.kind() {
            ty::Adt(def, gargs) if def.is_enum() && !def.variants().iter().all(|v| v.fields.is_empty()) => {
                // a data-carrying enum (e.g. a table of Option<u16>) with a directly encoded tag: variant + payload fields
                if let rustc_abi::Variants::Multiple { tag, tag_encoding: rustc_abi::TagEncoding::Direct, tag_field, variants } = &layout.variants {
                    let tag_off = off + layout.fields.offset(usize::from(*tag_field)).bytes() as usize;
                    let tag_size = tag.size(&tcx).bytes() as usize;
                    if tag_size == 0 || tag_size > 16 {
                        return None;
                    }
                    let tv = read(tag_off, tag_size);
                    let mask: u128 = if tag_size >= 16 { u128::MAX } else { (1u128 << (8 * tag_size)) - 1 };
                    for (vidx, d) in def.discriminants(tcx) {
                        if (d.val & mask) == tv {
                            let vl = &variants[vidx];
                            let mut parts = Vec::new();
                            for (i, fd) in def.variant(vidx).fields.iter().enumerate() {
                                let fty = fd.ty(tcx, gargs);
                                let foff = off + vl.fields.offset(i).bytes() as usize;
                                parts.push(self.mem_value_json(a, foff, fty, depth + 1)?);
                            }
                            return Some(format!(
                                "{{\"variant\":{},\"vname\":{},\"payload\":[{}]}}",
                                vidx.as_usize(),
                                esc(def.variant(vidx).name.as_str()),
                                parts.join(",")
                            ));
                        }
                    }
                }
                None
            }
            ty::Adt(def, gargs) if def.is_enum() => {
                if !def.variants().iter().all(|v| v.fields.is_empty()) || size == 0 || size > 16 {
                    return None;
                }
                let v = read(off, size);
                for (vidx, d) in def.discriminants(tcx) {
                    if d.val == v {
                        let _ = gargs;
                        return Some(format!("{{\"variant\":{},\"vname\":{}}}", vidx.as_usize(), esc(def.variant(vidx).name.as_str())));
                    }
                }
                None
            }
            ty::Adt(def, gargs) if def.is_struct() => {
                let mut parts = Vec::new();
                for (i, fd) in def.non_enum_variant().fields.iter().enumerate() {
                    let fty = fd.ty(tcx, gargs);
                    let foff = off + layout.fields.offset(i).bytes() as usize;
                    parts.push(self.mem_value_json(a, foff, fty, depth + 1)?);
                }
                Some(format!("{{\"fields\":[{}]}}", parts.join(",")))
            }
            ty::Tuple(tys) => {
                let mut parts = Vec::new();
                for (i, fty) in tys.iter().enumerate() {
                    let foff = off + layout.fields.offset(i).bytes() as usize;
                    parts.push(self.mem_value_json(a, foff, fty, depth + 1)?);
                }
                Some(format!("{{\"fields\":[{}]}}", parts.join(",")))
            }
            ty::Array(elem, _) => {
                let el = tcx.layout_of(typing_env.as_query_input(*elem)).ok()?;
                let esize = el.size.bytes() as usize;
                if esize == 0 || size / esize > 1024 {
                    return None;
                }
                let mut parts = Vec::new();
                for i in 0..(size / esize) {
                    parts.push(self.mem_value_json(a, off + i * esize, *elem, depth + 1)?);
                }
                Some(format!("{{\"elems\":[{}]}}", parts.join(",")))
            }
            _ => None,
        }
    }

    fn scalar_json(&mut self, sc: Scalar, ty: Ty<'tcx>) -> String {
        let tcx = self.tcx;
        match sc {
            Scalar::Int(i) => {
                let bits = i.size().bits();
                let v = i.to_bits_unchecked();
                let mut extra = String::new();
                if let ty::Adt(def, _) = ty.kind() {
                    if def.is_enum() {
                        for (vidx, d) in def.discriminants(tcx) {
                            if d.val == v {
                                let _ = write!(extra, ",\"variant\":{},\"vname\":{}", vidx.as_usize(), esc(def.variant(vidx).name.as_str()));
                            }
                        }
                    }
                }
                format!("{{\"int\":\"{}\",\"bits\":{}{}}}", v, bits, extra)
            }
            Scalar::Ptr(ptr, _) => {
                let aid = ptr.provenance.alloc_id();
                match tcx.try_get_global_alloc(aid) {
                    Some(GlobalAlloc::Static(did)) => format!("{{\"static\":{}}}", esc(&tcx.def_path_str(did))),
                    Some(GlobalAlloc::Function { instance }) => format!("{{\"fnptr\":{}}}", esc(&tcx.def_path_str(instance.def_id()))),
                    Some(GlobalAlloc::Memory(alloc)) => {
                        // reference to a promoted scalar (e.g. `&StateType::N`): read the pointee
                        let mut out = "{\"mem\":true}".to_string();
                        // reference to a promoted `&str` (e.g. the right-hand side of `name == ".got"`)
                        if let ty::Ref(_, pointee, _) = ty.kind() {
                            if let ty::Ref(_, inner, _) = pointee.kind() {
                                if inner.is_str() {
                                    let a = alloc.inner();
                                    let off = ptr.into_raw_parts().1.bytes() as usize;
                                    if off + 16 <= a.len() {
                                        let rd = |lo: usize| -> u64 {
                                            let b = a.inspect_with_uninit_and_ptr_outside_interpreter(lo..lo + 8);
                                            let mut v: u64 = 0;
                                            for (i, x) in b.iter().enumerate() {
                                                v |= (*x as u64) << (8 * i);
                                            }
                                            v
                                        };
                                        let inner_off = rd(off) as usize;
                                        let len = rd(off + 8) as usize;
                                        for (poff, prov) in a.provenance().ptrs().iter() {
                                            if poff.bytes() as usize == off {
                                                if let Some(GlobalAlloc::Memory(ia)) = tcx.try_get_global_alloc(prov.alloc_id()) {
                                                    let ib = ia.inner();
                                                    if inner_off + len <= ib.len() {
                                                        let bytes = ib.inspect_with_uninit_and_ptr_outside_interpreter(inner_off..inner_off + len);
                                                        out = format!("{{\"ref_str\":{}}}", esc(&String::from_utf8_lossy(bytes)));
                                                    }
                                                }
                                            }
                                        }
                                    }
                                }
                            }
                        }
                        if let ty::Ref(_, pointee, _) = ty.kind() {
                            let is_scalar = pointee.is_integral() || pointee.is_bool() || matches!(pointee.kind(), ty::Adt(d, _) if d.is_enum() && d.variants().iter().all(|v| v.fields.is_empty()));
                            if is_scalar {
                                let typing_env = TypingEnv::fully_monomorphized();
                                if let Ok(layout) = tcx.layout_of(typing_env.as_query_input(*pointee)) {
                                    let size = layout.size.bytes() as usize;
                                    let off = ptr.into_raw_parts().1.bytes() as usize;
                                    let a = alloc.inner();
                                    if size > 0 && size <= 16 && off + size <= a.len() {
                                        let bytes = a.inspect_with_uninit_and_ptr_outside_interpreter(off..off + size);
                                        let mut v: u128 = 0;
                                        for (i, b) in bytes.iter().enumerate() {
                                            v |= (*b as u128) << (8 * i);
                                        }
                                        let mut extra = String::new();
                                        if let ty::Adt(def, _) = pointee.kind() {
                                            for (vidx, d) in def.discriminants(tcx) {
                                                if d.val == v {
                                                    let _ = write!(extra, ",\"variant\":{},\"vname\":{}", vidx.as_usize(), esc(def.variant(vidx).name.as_str()));
                                                }
                                            }
                                        }
                                        out = format!("{{\"ref_int\":\"{}\",\"bits\":{}{}}}", v, size * 8, extra);
                                    }
                                }
                            }
                            // general fragment: nested tuples / structs / arrays / field-less enums of scalars
                            if out == "{\"mem\":true}" && !matches!(pointee.kind(), ty::Ref(..)) {
                                let base = ptr.into_raw_parts().1.bytes() as usize;
                                if let Some(v) = self.mem_value_json(alloc.inner(), base, *pointee, 0) {
                                    out = format!("{{\"ref_val\":{}}}", v);
                                }
                            }
                            // reference to a constant array of integers (lookup tables)
                            if let ty::Array(elem, _len) = pointee.kind() {
                                if elem.is_integral() || elem.is_bool() {
                                    let typing_env = TypingEnv::fully_monomorphized();
                                    if let (Ok(layout), Ok(el)) = (tcx.layout_of(typing_env.as_query_input(*pointee)), tcx.layout_of(typing_env.as_query_input(*elem))) {
                                        let esize = el.size.bytes() as usize;
                                        let total = layout.size.bytes() as usize;
                                        let base = ptr.into_raw_parts().1.bytes() as usize;
                                        let a = alloc.inner();
                                        if esize > 0 && esize <= 16 && total / esize <= 4096 && base + total <= a.len() {
                                            let bytes = a.inspect_with_uninit_and_ptr_outside_interpreter(base..base + total);
                                            let mut vals = String::new();
                                            for i in 0..(total / esize) {
                                                let mut v: u128 = 0;
                                                for bi in 0..esize {
                                                    v |= (bytes[i * esize + bi] as u128) << (8 * bi);
                                                }
                                                if i > 0 {
                                                    vals.push(',');
                                                }
                                                let _ = write!(vals, "\"{}\"", v);
                                            }
                                            out = format!("{{\"ref_array\":[{}],\"bits\":{}}}", vals, if elem.is_bool() { 1 } else { esize * 8 });
                                        }
                                    }
                                }
                            }
                            // reference to a promoted struct whose fields are all scalars (e.g. a constant RangeInclusive<u8>)
                            if let ty::Adt(def, gargs) = pointee.kind() {
                                if def.is_struct() {
                                    let typing_env = TypingEnv::fully_monomorphized();
                                    if let Ok(layout) = tcx.layout_of(typing_env.as_query_input(*pointee)) {
                                        let base = ptr.into_raw_parts().1.bytes() as usize;
                                        let a = alloc.inner();
                                        let mut fields = String::new();
                                        let mut ok = true;
                                        for (i, fd) in def.non_enum_variant().fields.iter().enumerate() {
                                            let fty = fd.ty(tcx, gargs);
                                            if !(fty.is_integral() || fty.is_bool() || fty.is_char()) {
                                                ok = false;
                                                break;
                                            }
                                            if let Ok(fl) = tcx.layout_of(typing_env.as_query_input(fty)) {
                                                let fsize = fl.size.bytes() as usize;
                                                let foff = base + layout.fields.offset(i).bytes() as usize;
                                                if fsize == 0 || fsize > 16 || foff + fsize > a.len() {
                                                    ok = false;
                                                    break;
                                                }
                                                let bytes = a.inspect_with_uninit_and_ptr_outside_interpreter(foff..foff + fsize);
                                                let mut v: u128 = 0;
                                                for (bi, b) in bytes.iter().enumerate() {
                                                    v |= (*b as u128) << (8 * bi);
                                                }
                                                if !fields.is_empty() {
                                                    fields.push(',');
                                                }
                                                let _ = write!(fields, "{{\"n\":{},\"v\":\"{}\",\"bits\":{}}}", esc(fd.name.as_str()), v, if fty.is_bool() { 1 } else { fsize * 8 });
                                            } else {
                                                ok = false;
                                                break;
                                            }
                                        }
                                        if ok && !fields.is_empty() {
                                            out = format!("{{\"ref_struct\":[{}],\"path\":{}}}", fields, esc(&tcx.def_path_str(def.did())));
                                        }
                                    }
                                }
                            }
                        }
                        out
                    }
                    _ => "{\"ptr\":true}".to_string(),
                }
            }
        }
    }

    fn constant(&mut self, owner: DefId, c: &ConstOperand<'tcx>) -> String {
        let tcx = self.tcx;
        let ty = c.const_.ty();
        let tid = self.tyid(ty);
        let val = if let ty::FnDef(did, args) = ty.kind() {
            format!(
                "{{\"fn\":{},\"full\":{}}}",
                esc(&tcx.def_path_str(*did)),
                esc(&tcx.def_path_str_with_args(*did, args))
            )
        } else {
            let typing_env = TypingEnv::post_analysis(tcx, owner);
            match c.const_.eval(tcx, typing_env, c.span) {
                Ok(ConstValue::Scalar(sc)) => self.scalar_json(sc, ty),
                Ok(ConstValue::ZeroSized) => "{\"zst\":true}".to_string(),
                Ok(cv @ ConstValue::Slice { .. }) => match cv.try_get_slice_bytes_for_diagnostics(tcx) {
                    Some(b) => format!("{{\"str\":{}}}", esc(&String::from_utf8_lossy(b))),
                    None => "{\"slice\":true}".to_string(),
                },
                Ok(ConstValue::Indirect { .. }) => {
                    // &str behind an indirection, or aggregate constants
                    let is_str_ref = matches!(ty.kind(), ty::Ref(_, t, _) if t.is_str());
                    if is_str_ref {
                        let cv = c.const_.eval(tcx, typing_env, c.span).unwrap();
                        match cv.try_get_slice_bytes_for_diagnostics(tcx) {
                            Some(b) => format!("{{\"str\":{}}}", esc(&String::from_utf8_lossy(b))),
                            None => "{\"indirect\":true}".to_string(),
                        }
                    } else if matches!(ty.kind(), ty::Ref(_, t, _) if matches!(t.kind(), ty::Slice(e) if *e == tcx.types.u8)) {
                        // a byte-string constant `&[u8]` (e.g. `const NAME: &[u8] = b"..."`): the bytes it points to
                        let cv = c.const_.eval(tcx, typing_env, c.span).unwrap();
                        let mut out = format!("{{\"indirect\":true,\"dbg\":{}}}", esc(&format!("{}", c.const_)));
                        if let ConstValue::Indirect { alloc_id, offset } = cv {
                            if let Some(GlobalAlloc::Memory(alloc)) = tcx.try_get_global_alloc(alloc_id) {
                                let a = alloc.inner();
                                let off = offset.bytes() as usize;
                                if off + 16 <= a.len() {
                                    let rd = |lo: usize| -> u64 {
                                        let b = a.inspect_with_uninit_and_ptr_outside_interpreter(lo..lo + 8);
                                        let mut v: u64 = 0;
                                        for (i, x) in b.iter().enumerate() {
                                            v |= (*x as u64) << (8 * i);
                                        }
                                        v
                                    };
                                    let inner_off = rd(off) as usize;
                                    let len = rd(off + 8) as usize;
                                    for (poff, prov) in a.provenance().ptrs().iter() {
                                        if poff.bytes() as usize == off {
                                            if let Some(GlobalAlloc::Memory(ia)) = tcx.try_get_global_alloc(prov.alloc_id()) {
                                                let ib = ia.inner();
                                                if len <= 4096 && inner_off + len <= ib.len() {
                                                    let bytes = ib.inspect_with_uninit_and_ptr_outside_interpreter(inner_off..inner_off + len);
                                                    let vals: Vec<String> = bytes.iter().map(|b| format!("\"{}\"", b)).collect();
                                                    out = format!("{{\"ref_array\":[{}],\"bits\":8,\"slice\":true}}", vals.join(","));
                                                }
                                            }
                                        }
                                    }
                                }
                            }
                        }
                        out
                    } else {
                        // an aggregate constant by value (e.g. a lookup table `const T: [u8; 4]`): read it from its allocation
                        let mut out = format!("{{\"indirect\":true,\"dbg\":{}}}", esc(&format!("{}", c.const_)));
                        if let Ok(ConstValue::Indirect { alloc_id, offset }) = c.const_.eval(tcx, typing_env, c.span) {
                            if let Some(GlobalAlloc::Memory(alloc)) = tcx.try_get_global_alloc(alloc_id) {
                                if let Some(v) = self.mem_value_json(alloc.inner(), offset.bytes() as usize, ty, 0) {
                                    out = format!("{{\"val\":{}}}", v);
                                }
                            }
                        }
                        out
                    }
                }
                Err(_) => format!("{{\"uneval\":{}}}", esc(&format!("{}", c.const_))),
            }
        };
        let named = match c.const_ {
            Const::Unevaluated(u, _) => {
                if u.promoted.is_some() {
                    ",\"promoted\":true".to_string()
                } else {
                    format!(",\"name\":{}", esc(&tcx.def_path_str(u.def)))
                }
            }
            _ => String::new(),
        };
        format!("{{\"k\":\"const\",\"ty\":{},\"v\":{}{}}}", tid, val, named)
    }

    fn operand(&mut self, owner: DefId, body: &Body<'tcx>, o: &Operand<'tcx>) -> String {
        match o {
            Operand::Copy(p) => format!("{{\"k\":\"copy\",\"p\":{}}}", self.place(body, p)),
            Operand::Move(p) => format!("{{\"k\":\"move\",\"p\":{}}}", self.place(body, p)),
            Operand::Constant(c) => self.constant(owner, c),
            _ => format!("{{\"k\":\"other\",\"dbg\":{}}}", esc(&format!("{:?}", o))),
        }
    }

    fn rvalue(&mut self, owner: DefId, body: &Body<'tcx>, r: &Rvalue<'tcx>) -> String {
        let tcx = self.tcx;
        match r {
            Rvalue::Use(o, ..) => format!("{{\"k\":\"use\",\"o\":{}}}", self.operand(owner, body, o)),
            Rvalue::Repeat(o, n) => {
                let len = n.try_to_target_usize(tcx).map(|v| v.to_string()).unwrap_or_else(|| "null".into());
                format!("{{\"k\":\"repeat\",\"o\":{},\"n\":{}}}", self.operand(owner, body, o), len)
            }
            Rvalue::Ref(_, bk, p) => {
                let m = matches!(bk, BorrowKind::Mut { .. });
                format!("{{\"k\":\"ref\",\"mut\":{},\"p\":{}}}", m, self.place(body, p))
            }
            Rvalue::RawPtr(kind, p) => {
                let m = matches!(kind, RawPtrKind::Mut);
                format!("{{\"k\":\"rawptr\",\"mut\":{},\"p\":{}}}", m, self.place(body, p))
            }
            Rvalue::Cast(ck, o, ty) => {
                let ckn = match ck {
                    CastKind::IntToInt => "IntToInt".to_string(),
                    CastKind::Transmute => "Transmute".to_string(),
                    CastKind::PtrToPtr => "PtrToPtr".to_string(),
                    CastKind::PointerCoercion(pc, _) => format!("PointerCoercion:{:?}", pc),
                    other => format!("{:?}", other),
                };
                let tid = self.tyid(*ty);
                format!("{{\"k\":\"cast\",\"ck\":{},\"o\":{},\"ty\":{}}}", esc(&ckn), self.operand(owner, body, o), tid)
            }
            Rvalue::BinaryOp(op, ab) => {
                let (a, b) = &**ab;
                format!(
                    "{{\"k\":\"bin\",\"op\":\"{:?}\",\"a\":{},\"b\":{}}}",
                    op,
                    self.operand(owner, body, a),
                    self.operand(owner, body, b)
                )
            }
            Rvalue::UnaryOp(op, o) => format!("{{\"k\":\"un\",\"op\":\"{:?}\",\"o\":{}}}", op, self.operand(owner, body, o)),
            Rvalue::Discriminant(p) => format!("{{\"k\":\"discr\",\"p\":{}}}", self.place(body, p)),
            Rvalue::Aggregate(ak, ops) => {
                let opsj: Vec<String> = ops.iter().map(|o| self.operand(owner, body, o)).collect();
                let head = match &**ak {
                    AggregateKind::Array(_) => "\"ak\":\"array\"".to_string(),
                    AggregateKind::Tuple => "\"ak\":\"tuple\"".to_string(),
                    AggregateKind::Adt(did, vidx, _, _, active) => {
                        let def = tcx.adt_def(*did);
                        let v = def.variant(*vidx);
                        let fnames: Vec<String> = v.fields.iter().map(|f| esc(f.name.as_str())).collect();
                        format!(
                            "\"ak\":\"adt\",\"path\":{},\"variant\":{},\"vname\":{},\"fnames\":[{}],\"active\":{}",
                            esc(&tcx.def_path_str(*did)),
                            vidx.as_usize(),
                            esc(v.name.as_str()),
                            fnames.join(","),
                            active.map(|a| a.as_usize().to_string()).unwrap_or_else(|| "null".into())
                        )
                    }
                    AggregateKind::Closure(did, _) => format!("\"ak\":\"closure\",\"path\":{}", esc(&tcx.def_path_str(*did))),
                    AggregateKind::RawPtr(..) => "\"ak\":\"rawptr\"".to_string(),
                    _ => "\"ak\":\"other\"".to_string(),
                };
                format!("{{\"k\":\"agg\",{},\"ops\":[{}]}}", head, opsj.join(","))
            }
            Rvalue::CopyForDeref(p) => format!("{{\"k\":\"use\",\"o\":{{\"k\":\"copy\",\"p\":{}}}}}", self.place(body, p)),
            other => format!("{{\"k\":\"other\",\"dbg\":{}}}", esc(&format!("{:?}", other))),
        }
    }

    fn callee(&mut self, owner: DefId, func: &Operand<'tcx>) -> String {
        let tcx = self.tcx;
        if let Some((did, args)) = func.const_fn_def() {
            let typing_env = TypingEnv::post_analysis(tcx, owner);
            let mut self_closure = "null".to_string();
            if let Some(t0) = args.types().next() {
                if let ty::Closure(cd, _) = t0.kind() {
                    self_closure = esc(&tcx.def_path_str(*cd));
                }
            }
            match Instance::try_resolve(tcx, typing_env, did, args) {
                Ok(Some(inst)) => {
                    let rdid = inst.def_id();
                    let kind = match inst.def {
                        ty::InstanceKind::Item(_) => "item".to_string(),
                        ty::InstanceKind::Intrinsic(_) => "intrinsic".to_string(),
                        ty::InstanceKind::Virtual(..) => "virtual".to_string(),
                        ty::InstanceKind::ClosureOnceShim { .. } => "closure_once_shim".to_string(),
                        ty::InstanceKind::FnPtrShim(..) => "fnptr_shim".to_string(),
                        ty::InstanceKind::DropGlue(..) => "drop_glue".to_string(),
                        ty::InstanceKind::CloneShim(..) => "clone_shim".to_string(),
                        other => format!("{:?}", std::mem::discriminant(&other)),
                    };
                    format!(
                        "{{\"resolved\":true,\"path\":{},\"full\":{},\"decl\":{},\"local\":{},\"ikind\":{},\"self_closure\":{}}}",
                        esc(&tcx.def_path_str(rdid)),
                        esc(&tcx.def_path_str_with_args(rdid, inst.args)),
                        esc(&tcx.def_path_str_with_args(did, args)),
                        rdid.is_local(),
                        esc(&kind),
                        self_closure
                    )
                }
                _ => format!(
                    "{{\"resolved\":false,\"path\":{},\"full\":{},\"decl\":{},\"local\":{},\"ikind\":\"unresolved\",\"self_closure\":{}}}",
                    esc(&tcx.def_path_str(did)),
                    esc(&tcx.def_path_str_with_args(did, args)),
                    esc(&tcx.def_path_str_with_args(did, args)),
                    did.is_local(),
                    self_closure
                ),
            }
        } else {
            "{\"resolved\":false,\"path\":null,\"full\":null,\"decl\":null,\"local\":false,\"ikind\":\"indirect\",\"self_closure\":null}".to_string()
        }
    }

    fn terminator(&mut self, owner: DefId, body: &Body<'tcx>, t: &Terminator<'tcx>) -> String {
        let ln = self.line(t.source_info.span);
        let exp = self.expn(t.source_info.span);
        let tail = format!(",\"ln\":{},\"exp\":{}", ln, exp);
        match &t.kind {
            TerminatorKind::Goto { target } => format!("{{\"k\":\"goto\",\"target\":{}{}}}", target.as_usize(), tail),
            TerminatorKind::SwitchInt { discr, targets } => {
                let ts: Vec<String> = targets.iter().map(|(v, bb)| format!("[\"{}\",{}]", v, bb.as_usize())).collect();
                format!(
                    "{{\"k\":\"switch\",\"o\":{},\"targets\":[{}],\"otherwise\":{}{}}}",
                    self.operand(owner, body, discr),
                    ts.join(","),
                    targets.otherwise().as_usize(),
                    tail
                )
            }
            TerminatorKind::Return => format!("{{\"k\":\"return\"{}}}", tail),
            TerminatorKind::Unreachable => format!("{{\"k\":\"unreachable\"{}}}", tail),
            TerminatorKind::UnwindResume => format!("{{\"k\":\"resume\"{}}}", tail),
            TerminatorKind::UnwindTerminate(_) => format!("{{\"k\":\"abort\"{}}}", tail),
            TerminatorKind::Drop { place, target, .. } => {
                format!("{{\"k\":\"drop\",\"p\":{},\"target\":{}{}}}", self.place(body, place), target.as_usize(), tail)
            }
            TerminatorKind::Call { func, args, destination, target, fn_span, .. } => {
                let argsj: Vec<String> = args.iter().map(|a| self.operand(owner, body, &a.node)).collect();
                let fln = self.line(*fn_span);
                format!(
                    "{{\"k\":\"call\",\"func\":{},\"callee\":{},\"args\":[{}],\"dest\":{},\"target\":{},\"fln\":{}{}}}",
                    self.operand(owner, body, func),
                    self.callee(owner, func),
                    argsj.join(","),
                    self.place(body, destination),
                    target.map(|b| b.as_usize().to_string()).unwrap_or_else(|| "null".into()),
                    fln,
                    tail
                )
            }
            TerminatorKind::Assert { cond, expected, msg, target, .. } => {
                let m = match &**msg {
                    AssertKind::BoundsCheck { len, index } => format!(
                        "{{\"kind\":\"BoundsCheck\",\"ops\":[{},{}]}}",
                        self.operand(owner, body, len),
                        self.operand(owner, body, index)
                    ),
                    AssertKind::Overflow(op, a, b) => format!(
                        "{{\"kind\":\"Overflow\",\"op\":\"{:?}\",\"ops\":[{},{}]}}",
                        op,
                        self.operand(owner, body, a),
                        self.operand(owner, body, b)
                    ),
                    AssertKind::OverflowNeg(a) => format!("{{\"kind\":\"OverflowNeg\",\"ops\":[{}]}}", self.operand(owner, body, a)),
                    AssertKind::DivisionByZero(a) => format!("{{\"kind\":\"DivisionByZero\",\"ops\":[{}]}}", self.operand(owner, body, a)),
                    AssertKind::RemainderByZero(a) => format!("{{\"kind\":\"RemainderByZero\",\"ops\":[{}]}}", self.operand(owner, body, a)),
                    AssertKind::NullPointerDereference => "{\"kind\":\"NullPointerDereference\",\"ops\":[]}".to_string(),
                    AssertKind::MisalignedPointerDereference { .. } => "{\"kind\":\"MisalignedPointerDereference\",\"ops\":[]}".to_string(),
                    AssertKind::InvalidEnumConstruction(_) => "{\"kind\":\"InvalidEnumConstruction\",\"ops\":[]}".to_string(),
                    other => format!("{{\"kind\":{},\"ops\":[]}}", esc(&format!("{:?}", std::mem::discriminant(other)))),
                };
                format!(
                    "{{\"k\":\"assert\",\"cond\":{},\"expected\":{},\"msg\":{},\"target\":{}{}}}",
                    self.operand(owner, body, cond),
                    expected,
                    m,
                    target.as_usize(),
                    tail
                )
            }
            other => format!("{{\"k\":\"other\",\"dbg\":{}{}}}", esc(&format!("{:?}", other)), tail),
        }
    }

    fn body(&mut self, def_id: DefId, kind: &str) -> String {
        let tcx = self.tcx;
        let body: &Body<'tcx> = tcx.optimized_mir(def_id);
        let sm = tcx.sess.source_map();
        let lo = sm.lookup_char_pos(body.span.lo());
        let hi = sm.lookup_char_pos(body.span.hi());
        let file = format!("{}", lo.file.name.prefer_local_unconditionally());
        let mut names: HashMap<usize, String> = HashMap::new();
        for vdi in body.var_debug_info.iter() {
            if let VarDebugInfoContents::Place(p) = &vdi.value {
                if p.projection.is_empty() {
                    names.entry(p.local.as_usize()).or_insert_with(|| vdi.name.to_string());
                }
            }
        }
        let mut locals = Vec::new();
        for (l, decl) in body.local_decls.iter_enumerated() {
            let tid = self.tyid(decl.ty);
            let n = names.get(&l.as_usize()).map(|s| esc(s)).unwrap_or_else(|| "null".into());
            locals.push(format!("{{\"ty\":{},\"n\":{}}}", tid, n));
        }
        let mut blocks = Vec::new();
        for (_bb, data) in body.basic_blocks.iter_enumerated() {
            let mut sts = Vec::new();
            for st in data.statements.iter() {
                match &st.kind {
                    StatementKind::Assign(b) => {
                        let (p, r) = &**b;
                        let ln = self.line(st.source_info.span);
                        let exp = self.expn(st.source_info.span);
                        sts.push(format!(
                            "{{\"k\":\"assign\",\"p\":{},\"r\":{},\"ln\":{},\"exp\":{}}}",
                            self.place(body, p),
                            self.rvalue(def_id, body, r),
                            ln,
                            exp
                        ));
                    }
                    StatementKind::StorageLive(_)
                    | StatementKind::StorageDead(_)
                    | StatementKind::Nop
                    | StatementKind::FakeRead(..)
                    | StatementKind::PlaceMention(..)
                    | StatementKind::AscribeUserType(..)
                    | StatementKind::Coverage(..)
                    | StatementKind::ConstEvalCounter => {}
                    other => {
                        sts.push(format!("{{\"k\":\"other\",\"dbg\":{}}}", esc(&format!("{:?}", other))));
                    }
                }
            }
            let term = self.terminator(def_id, body, data.terminator());
            blocks.push(format!("{{\"cleanup\":{},\"st\":[{}],\"term\":{}}}", data.is_cleanup, sts.join(","), term));
        }
        let vis = if matches!(tcx.def_kind(def_id), DefKind::Fn | DefKind::AssocFn) { format!("{:?}", tcx.visibility(def_id)) } else { String::new() };
        format!(
            "{{\"key\":{},\"idx\":{},\"kind\":\"{}\",\"file\":{},\"line\":{},\"end_line\":{},\"argc\":{},\"vis\":{},\"locals\":[{}],\"blocks\":[{}]}}",
            esc(&tcx.def_path_str(def_id)),
            def_id.index.as_u32(),
            kind,
            esc(&file),
            lo.line,
            hi.line,
            body.arg_count,
            esc(&vis),
            locals.join(","),
            blocks.join(",")
        )
    }
}

struct Dump;

impl Callbacks for Dump {
    fn after_analysis<'tcx>(&mut self, _compiler: &rustc_interface::interface::Compiler, tcx: TyCtxt<'tcx>) -> Compilation {
        let out = match std::env::var("H8FACTS_OUT") {
            Ok(o) => o,
            Err(_) => return Compilation::Continue,
        };
        let want = std::env::var("H8FACTS_CRATE").unwrap_or_else(|_| "koge29_h8_3069f_emulator".to_string());
        let cname = tcx.crate_name(LOCAL_CRATE).to_string();
        if cname != want {
            return Compilation::Continue;
        }
        let mut cx = Cx { tcx, tymap: HashMap::new(), tydesc: Vec::new() };
        let mut bodies = Vec::new();
        let mut consts = Vec::new();
        let mut statics: Vec<String> = Vec::new();
        for ldid in tcx.hir_body_owners() {
            let did = ldid.to_def_id();
            match tcx.def_kind(did) {
                DefKind::Fn | DefKind::AssocFn => bodies.push(cx.body(did, "fn")),
                DefKind::Closure => bodies.push(cx.body(did, "closure")),
                DefKind::Static { .. } => {
                    // statics holding a wide reference (&[u8] / &str): record the length of the referent
                    if let Ok(alloc) = tcx.eval_static_initializer(did) {
                        let a = alloc.inner();
                        if a.len() == 16 {
                            let b = a.inspect_with_uninit_and_ptr_outside_interpreter(8..16);
                            let mut v: u64 = 0;
                            for (i, x) in b.iter().enumerate() {
                                v |= (*x as u64) << (8 * i);
                            }
                            statics.push(format!("{{\"name\":{},\"fat_len\":{}}}", esc(&tcx.def_path_str(did)), v));
                        }
                    }
                }
                DefKind::Const { .. } | DefKind::AssocConst { .. } => {
                    let ty = tcx.type_of(did).instantiate_identity().skip_norm_wip();
                    if let Ok(cv) = tcx.const_eval_poly(did) {
                        if let ConstValue::Scalar(sc) = cv {
                            let tid = cx.tyid(ty);
                            consts.push(format!("{{\"name\":{},\"ty\":{},\"v\":{}}}", esc(&tcx.def_path_str(did)), tid, cx.scalar_json(sc, ty)));
                        }
                    }
                }
                _ => {}
            }
        }
        let nb = bodies.len();
        let doc = format!(
            "{{\"crate\":{},\"profile_overflow_checks\":{},\"debug_assertions\":{},\"cfg_test\":{},\"n_bodies\":{},\"consts\":[{}],\"statics\":[{}],\"types\":[{}],\"bodies\":[\n{}\n]}}",
            esc(&cname),
            tcx.sess.overflow_checks(),
            tcx.sess.opts.debug_assertions,
            tcx.sess.is_test_crate(),
            nb,
            consts.join(","),
            statics.join(","),
            cx.tydesc.join(","),
            bodies.join(",\n")
        );
        std::fs::write(&out, doc).expect("h8facts: cannot write facts file");
        Compilation::Continue
    }
}

fn main() {
    let mut args: Vec<String> = std::env::args().collect();
    // RUSTC_WORKSPACE_WRAPPER protocol: argv[1] is the path of the real rustc.
    if args.len() > 1 && (args[1].ends_with("rustc") || args[1].contains("/rustc")) {
        args.remove(1);
    }
    let mut cb = Dump;
    rustc_driver::run_compiler(&args, &mut cb);
}
